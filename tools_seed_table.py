#!/usr/bin/env python3
"""Rewrites the table of seeded changes in DESIGN.md (between the SEEDED-TABLE markers) from seeded/*/meta.json, confirm.json, result.json."""
import glob
import json
import os
import re

HERE = os.path.dirname(os.path.abspath(__file__))
rows = []
for d in sorted(glob.glob(os.path.join(HERE, "seeded", "*", ""))):
    sid = os.path.basename(d[:-1])
    try:
        meta = json.load(open(d + "meta.json"))
    except (OSError, ValueError):
        continue
    what = re.sub(r"\s+", " ", meta.get("what", "")).strip()
    what = what[:230] + ("…" if len(what) > 230 else "")
    needs = re.sub(r"\s+", " ", meta.get("needs", "")).strip()
    needs = needs[:160] + ("…" if len(needs) > 160 else "")
    try:
        conf = json.load(open(d + "confirm.json")).get("confirmed")
    except (OSError, ValueError):
        conf = None
    try:
        res = json.load(open(d + "result.json"))
    except (OSError, ValueError):
        res = {}
    caught = ", ".join("%s%s" % (p, "" if r.get("caught") else " (missed)") for p, r in sorted(res.items())) or "not run"
    note = meta.get("verif_note", "")
    rows.append("| %s | %s | %s | %s | %s%s |" % (sid, what.replace("|", "/"), needs.replace("|", "/"), "yes" if conf else ("no" if conf is False else "?"), caught,
                                               (" — " + note) if note else ""))
table = "| id | change | needs | confirmed (tests pass, demo fails/passes) | quick check that reports it |\n|---|---|---|---|---|\n" + "\n".join(rows)
p = os.path.join(HERE, "DESIGN.md")
s = open(p).read()
a, b = "<!-- SEEDED-TABLE-BEGIN -->", "<!-- SEEDED-TABLE-END -->"
if a in s and b in s:
    s = s[:s.index(a) + len(a)] + "\n" + table + "\n" + s[s.index(b):]
    open(p, "w").write(s)
print(len(rows), "rows")
