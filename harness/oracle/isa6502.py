"""The documented MOS 6502 instruction set, written from the ISA (not from the code under test).

Modes: imp (implied / accumulator), imm, zp, zpx, zpy, abs, abx, aby, ind, izx, izy, rel.
"""

ISA = {
    "adc": {"imm": 0x69, "zp": 0x65, "zpx": 0x75, "abs": 0x6D, "abx": 0x7D, "aby": 0x79, "izx": 0x61, "izy": 0x71},
    "and": {"imm": 0x29, "zp": 0x25, "zpx": 0x35, "abs": 0x2D, "abx": 0x3D, "aby": 0x39, "izx": 0x21, "izy": 0x31},
    "asl": {"imp": 0x0A, "zp": 0x06, "zpx": 0x16, "abs": 0x0E, "abx": 0x1E},
    "bcc": {"rel": 0x90}, "bcs": {"rel": 0xB0}, "beq": {"rel": 0xF0}, "bmi": {"rel": 0x30},
    "bne": {"rel": 0xD0}, "bpl": {"rel": 0x10}, "bvc": {"rel": 0x50}, "bvs": {"rel": 0x70},
    "bit": {"zp": 0x24, "abs": 0x2C},
    "brk": {"imp": 0x00},
    "clc": {"imp": 0x18}, "cld": {"imp": 0xD8}, "cli": {"imp": 0x58}, "clv": {"imp": 0xB8},
    "cmp": {"imm": 0xC9, "zp": 0xC5, "zpx": 0xD5, "abs": 0xCD, "abx": 0xDD, "aby": 0xD9, "izx": 0xC1, "izy": 0xD1},
    "cpx": {"imm": 0xE0, "zp": 0xE4, "abs": 0xEC},
    "cpy": {"imm": 0xC0, "zp": 0xC4, "abs": 0xCC},
    "dec": {"zp": 0xC6, "zpx": 0xD6, "abs": 0xCE, "abx": 0xDE},
    "dex": {"imp": 0xCA}, "dey": {"imp": 0x88},
    "eor": {"imm": 0x49, "zp": 0x45, "zpx": 0x55, "abs": 0x4D, "abx": 0x5D, "aby": 0x59, "izx": 0x41, "izy": 0x51},
    "inc": {"zp": 0xE6, "zpx": 0xF6, "abs": 0xEE, "abx": 0xFE},
    "inx": {"imp": 0xE8}, "iny": {"imp": 0xC8},
    "jmp": {"abs": 0x4C, "ind": 0x6C},
    "jsr": {"abs": 0x20},
    "lda": {"imm": 0xA9, "zp": 0xA5, "zpx": 0xB5, "abs": 0xAD, "abx": 0xBD, "aby": 0xB9, "izx": 0xA1, "izy": 0xB1},
    "ldx": {"imm": 0xA2, "zp": 0xA6, "zpy": 0xB6, "abs": 0xAE, "aby": 0xBE},
    "ldy": {"imm": 0xA0, "zp": 0xA4, "zpx": 0xB4, "abs": 0xAC, "abx": 0xBC},
    "lsr": {"imp": 0x4A, "zp": 0x46, "zpx": 0x56, "abs": 0x4E, "abx": 0x5E},
    "nop": {"imp": 0xEA},
    "ora": {"imm": 0x09, "zp": 0x05, "zpx": 0x15, "abs": 0x0D, "abx": 0x1D, "aby": 0x19, "izx": 0x01, "izy": 0x11},
    "pha": {"imp": 0x48}, "php": {"imp": 0x08}, "pla": {"imp": 0x68}, "plp": {"imp": 0x28},
    "rol": {"imp": 0x2A, "zp": 0x26, "zpx": 0x36, "abs": 0x2E, "abx": 0x3E},
    "ror": {"imp": 0x6A, "zp": 0x66, "zpx": 0x76, "abs": 0x6E, "abx": 0x7E},
    "rti": {"imp": 0x40}, "rts": {"imp": 0x60},
    "sbc": {"imm": 0xE9, "zp": 0xE5, "zpx": 0xF5, "abs": 0xED, "abx": 0xFD, "aby": 0xF9, "izx": 0xE1, "izy": 0xF1},
    "sec": {"imp": 0x38}, "sed": {"imp": 0xF8}, "sei": {"imp": 0x78},
    "sta": {"zp": 0x85, "zpx": 0x95, "abs": 0x8D, "abx": 0x9D, "aby": 0x99, "izx": 0x81, "izy": 0x91},
    "stx": {"zp": 0x86, "zpy": 0x96, "abs": 0x8E},
    "sty": {"zp": 0x84, "zpx": 0x94, "abs": 0x8C},
    "tax": {"imp": 0xAA}, "tay": {"imp": 0xA8}, "tsx": {"imp": 0xBA}, "txa": {"imp": 0x8A},
    "txs": {"imp": 0x9A}, "tya": {"imp": 0x98},
}
assert len(ISA) == 56 and sum(len(v) for v in ISA.values()) == 151
assert len({op for v in ISA.values() for op in v.values()}) == 151

MNEMONICS = sorted(ISA)
BRANCHES = [m for m in MNEMONICS if "rel" in ISA[m]]

# The assembler's ten syntactic operand forms -> (one-byte-operand mode, two-byte-operand mode)
FORMS = {
    "none": ("imp", None),
    "imm": ("imm", None),      # #v
    "v": ("zp", "abs"),        # v
    "v,x": ("zpx", "abx"),
    "v,y": ("zpy", "aby"),
    "(v,x)": ("izx", None),
    "(v),y": ("izy", None),
    "(v)": (None, "ind"),
    "(v,y)": (None, None),     # not a 6502 addressing mode
    "(v),x": (None, None),     # not a 6502 addressing mode
}
FORM_NAMES = list(FORMS)


def render_operand(form, vtext):
    return {
        "none": "", "imm": "#" + vtext, "v": vtext, "v,x": vtext + ",x", "v,y": vtext + ",y",
        "(v,x)": "(" + vtext + ",x)", "(v),y": "(" + vtext + "),y", "(v)": "(" + vtext + ")",
        "(v,y)": "(" + vtext + ",y)", "(v),x": "(" + vtext + "),x",
    }[form]


def render(mn, form, vtext):
    op = render_operand(form, vtext)
    return mn + (" " + op if op else "")


REJECT = None


def encode(mn, form, value, pc):
    """Bytes the ISA prescribes for `mn <form(value)>` placed at address pc, or REJECT (None).

    Domain: 0 <= value <= 65535. zero-page form exactly when it exists and value <= 255.
    """
    modes = ISA[mn]
    if "rel" in modes:
        if form != "v":
            return REJECT
        off = value - (pc + 2)
        if -128 <= off <= 127:
            return bytes([modes["rel"], off & 0xFF])
        return REJECT
    if form == "none":
        return bytes([modes["imp"]]) if "imp" in modes else REJECT
    short, long_ = FORMS[form]
    if form == "imm":
        if "imm" in modes and 0 <= value <= 255:
            return bytes([modes["imm"], value])
        return REJECT
    if short in modes and 0 <= value <= 255:
        return bytes([modes[short], value])
    if long_ in modes and 0 <= value <= 65535:
        return bytes([modes[long_], value & 0xFF, value >> 8])
    return REJECT


def legal_rows():
    """(mnemonic, form) rows for which some operand value is legal."""
    rows = []
    for mn in MNEMONICS:
        for form in FORM_NAMES:
            if any(encode(mn, form, v, 0x2000) is not None for v in (0x10, 0x1234, 0x2010)):
                rows.append((mn, form))
    return rows
