"""Reference evaluation of expression trees over unbounded integers, with a domain check.

Trees are tuples:
  ("num", value, text)            ("id", name, modifier|None)      ("pc",)
  ("bin", op, lhs, rhs)           ("un", "!"|"-"|"!-", child)      ("paren", child)
  ("defined", name)               ("str", [("lit", text) | ("interp", name)])
Environment: name -> int | str | None(undefined).   `pc`: current program counter.
"""
I64_MIN, I64_MAX = -(2 ** 63), 2 ** 63 - 1


class OutOfDomain(Exception):
    pass


def _chk(v):
    if isinstance(v, int) and not (I64_MIN <= v <= I64_MAX):
        raise OutOfDomain("i64 overflow")
    return v


def trunc_div(a, b):
    q = abs(a) // abs(b)
    return q if (a < 0) == (b < 0) else -q


def evaluate(t, env, pc):
    k = t[0]
    if k == "num":
        return _chk(t[1])
    if k == "pc":
        return pc
    if k == "paren":
        return evaluate(t[1], env, pc)
    if k == "id":
        v = env.get(t[1])
        if v is None:
            raise OutOfDomain("undefined identifier")
        if isinstance(v, str):
            if t[2]:
                raise OutOfDomain("modifier on string")
            return v
        if t[2] == "<":
            return v & 255
        if t[2] == ">":
            return (v >> 8) & 255
        return v
    if k == "defined":
        return 1 if env.get(t[1]) is not None else 0
    if k == "str":
        out = ""
        for piece in t[1]:
            if piece[0] == "lit":
                out += piece[1]
            else:
                v = env.get(piece[1])
                if v is None:
                    raise OutOfDomain("undefined in interpolation")
                out += str(v)
        return out
    if k == "un":
        v = evaluate(t[2], env, pc)
        if isinstance(v, str):
            raise OutOfDomain("unary on string")
        if t[1] == "-":
            return _chk(-v)
        if t[1] == "!":
            return 1 if v == 0 else 0
        if t[1] == "!-":  # !(-v)
            return 1 if _chk(-v) == 0 else 0
        raise ValueError(t[1])
    if k == "bin":
        op = t[1]
        a = evaluate(t[2], env, pc)
        b = evaluate(t[3], env, pc)
        if isinstance(a, str) or isinstance(b, str):
            if not (isinstance(a, str) and isinstance(b, str)):
                raise OutOfDomain("mixed string/int")
            if op == "+":
                return a + b
            if op == "==":
                return int(a == b)
            if op == "!=":
                return int(a != b)
            raise OutOfDomain("string operator")
        if op == "+":
            return _chk(a + b)
        if op == "-":
            return _chk(a - b)
        if op == "*":
            return _chk(a * b)
        if op == "/":
            if b == 0:
                raise OutOfDomain("div by zero")
            return _chk(trunc_div(a, b))
        if op == "%":
            if b == 0:
                raise OutOfDomain("mod by zero")
            return _chk(a - b * trunc_div(a, b))
        if op == "<<":
            if not 0 <= b <= 31:
                raise OutOfDomain("shift count")
            return _chk(a << b)
        if op == ">>":
            if not 0 <= b <= 31:
                raise OutOfDomain("shift count")
            return a >> b
        if op == "^":
            return a ^ b
        if op == "==":
            return int(a == b)
        if op == "!=":
            return int(a != b)
        if op == ">":
            return int(a > b)
        if op == ">=":
            return int(a >= b)
        if op == "<":
            return int(a < b)
        if op == "<=":
            return int(a <= b)
        if op == "&&":
            return int(a != 0 and b != 0)
        if op == "||":
            return int(a != 0 or b != 0)
        raise ValueError(op)
    raise ValueError(k)


MULCLASS = {"*", "/", "%"}
ADDCLASS = {"+", "-"}
ALL_OPS = ["*", "/", "%", "<<", ">>", "^", "+", "-", "==", "!=", ">=", "<=", ">", "<", "&&", "||"]


def needs_parens(parent_op, child, side):
    """Parenthesise wherever the documentation does not fix relative precedence/associativity."""
    if child[0] != "bin":
        return False
    cop = child[1]
    if cop in MULCLASS and parent_op in ADDCLASS:
        return False
    if side == "l":
        if cop in MULCLASS and parent_op in MULCLASS:
            return False
        if cop in ADDCLASS and parent_op in ADDCLASS:
            return False
        if cop == parent_op:
            return False
    return True


def render(t, sp=lambda: " "):
    k = t[0]
    if k == "num":
        return t[2]
    if k == "pc":
        return "*"
    if k == "paren":
        return "(" + render(t[1], sp) + ")"
    if k == "id":
        return (t[2] or "") + t[1]
    if k == "defined":
        return "defined(" + t[1] + ")"
    if k == "str":
        return '"' + "".join(p[1] if p[0] == "lit" else "{" + p[1] + "}" for p in t[1]) + '"'
    if k == "un":
        c = t[2]
        inner = render(c, sp)
        # `-<name` / `->name` is ambiguous with "scope start compared with name": always parenthesised
        if c[0] in ("bin", "un") or (c[0] == "id" and c[2] and "-" in t[1]):
            inner = "(" + inner + ")"
        return t[1] + inner
    if k == "bin":
        l = render(t[2], sp)
        r = render(t[3], sp)
        if needs_parens(t[1], t[2], "l"):
            l = "(" + l + ")"
        if needs_parens(t[1], t[3], "r"):
            r = "(" + r + ")"
        return l + sp() + t[1] + sp() + r
    raise ValueError(k)


def subtrees(t):
    yield t
    k = t[0]
    if k == "paren":
        yield from subtrees(t[1])
    elif k == "un":
        yield from subtrees(t[2])
    elif k == "bin":
        yield from subtrees(t[2])
        yield from subtrees(t[3])


def size(t):
    return sum(1 for _ in subtrees(t))


def skeleton(t, env=None):
    k = t[0]
    if k == "num":
        return "0" if t[1] == 0 else ("B" if t[2] in ("true", "false") else "N")
    if k == "pc":
        return "*"
    if k == "paren":
        return "(" + skeleton(t[1]) + ")"
    if k == "id":
        return (t[2] or "") + "I"
    if k == "defined":
        return "defined(I)"
    if k == "str":
        return "S" + ("{}" if any(p[0] == "interp" for p in t[1]) else "")
    if k == "un":
        return t[1] + "[" + skeleton(t[2]) + "]"
    if k == "bin":
        return "[" + skeleton(t[2]) + t[1] + skeleton(t[3]) + "]"
