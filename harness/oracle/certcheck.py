"""Fixed-point certificate checker for a successful build.

Given the abstract program (with token positions recorded by the renderer) and what the assembler *claims* (symbol
values, segment images), walk the program in emission order with a running program counter and demand that every
label / block symbol equals the address of the next byte, every constant equals its expression, and the images are
exactly the encodings of the statements under the claimed values. Because it checks a fixed point instead of
computing one, programs with several consistent solutions raise no alarm.
"""
import re

from . import exprval as ev
from . import isa6502 as isa

LOWER = "abcdefghijklmnopqrstuvwxyz"


class OutOfDomain(Exception):
    pass


class Failure(Exception):
    def __init__(self, kind, msg, stmt=None):
        super().__init__(msg)
        self.kind = kind
        self.msg = msg
        self.stmt = stmt


class Seg:
    def __init__(self, name, start, target):
        self.name = name
        self.start = start
        self.offset = target - start
        self.pc = start
        self.data = {}
        self.lo = None
        self.hi = None

    def tpc(self):
        return self.pc + self.offset

    def emit(self, bs):
        if not bs:
            if self.lo is None:
                # mos extends the range on the first emit even when it is empty
                pass
            return
        for b in bs:
            if self.pc > 0xFFFF:
                raise OutOfDomain("segment out of range")
            self.data[self.pc] = b
            self.pc += 1
        s, e = self.pc - len(bs), self.pc
        self.lo = s if self.lo is None else min(self.lo, s)
        self.hi = e if self.hi is None else max(self.hi, e)

    def image(self):
        if self.lo is None:
            return b""
        return bytes(self.data.get(a, 0) for a in range(self.lo, self.hi))


def macro_chain_of_path(path):
    return tuple(int(m) for m in re.findall(r"\$macro_(\d+)", path))


def build_claims(ctx):
    """(file, offset of the defining token, macro chain) -> value ; plus path -> value"""
    by_pos, by_path, dup = {}, {}, set()
    syms = ctx.get("symbols", [])
    final = max([s.get("pass", 0) for s in syms if s.get("span")] or [0])
    for s in syms:
        by_path[s["path"]] = s
        if s.get("span") and s.get("pass", final) != final:
            continue  # left over from an earlier pass (a scope that no longer exists under that name): not a claim
        sp = s.get("span")
        if not sp or "panic" in sp:
            continue
        key = (sp["file"], sp["o0"], macro_chain_of_path(s["path"]), s["path"].rsplit(".", 1)[-1] if s["path"].rsplit(".", 1)[-1] in "-+" else "")
        if key in by_pos and by_pos[key]["val"] != s["val"]:
            dup.add(key)
        by_pos[key] = s
    return by_pos, by_path, dup


class Walker:
    def __init__(self, prog, ctx, base_pc, align_full=True):
        self.prog = prog
        self.by_pos, self.by_path, self.dup = build_claims(ctx)
        self.segs = {}
        self.order = []
        self.cur = None
        self.base_pc = base_pc
        self.align_full = align_full
        self.macro_counter = 0
        self.chain = ()
        self.bind = {}            # Def.uid -> value (params, loop index)
        self.vars = {}
        self.loop_depth = 0
        self.obligations = 0
        self.emissions = []       # (stmt, mark, target_pc, nbytes, chain, scope_kind)
        self.size_flips = 0
        self.notes = {}

    # ---- claimed values
    def claimed(self, d, what="def"):
        if d.pos is None:
            raise Failure("harness", "definition %r was never rendered" % d)
        chain = self.chain if any(s.kind == "macro" for s in d.scope.chain()) else ()
        key = (d.pos[0], d.pos[4], chain, "")
        if key in self.dup:
            raise OutOfDomain("ambiguous claim")
        s = self.by_pos.get(key)
        if s is None:
            raise Failure("missing-symbol", "%s %r (%s) has no entry in the symbol table" % (d.kind, d.name, key), None)
        return s["val"]

    def claimed_block(self, st, which, else_=False):
        m = st.marks.get(("else_" if else_ else "") + ("lbrace" if which == "-" else "rbrace"))
        chain = self.chain if any(s.kind == "macro" for s in st.scope.chain()) or (getattr(st, "bscope", None) is not None and any(s.kind == "macro" for s in st.bscope.chain())) else ()
        key = (m[0], m[5], chain, which)
        if key in self.dup:
            raise OutOfDomain("ambiguous claim")
        s = self.by_pos.get(key)
        if s is None:
            raise Failure("missing-symbol", "block symbol %s of %r has no entry in the symbol table" % (which, st))
        return s["val"]

    # ---- expressions
    def value(self, t, site):
        k = t[0]
        if k == "num":
            return t[1]
        if k == "pc":
            return self.seg().tpc()
        if k == "paren":
            return self.value(t[1], site)
        if k == "str":
            return "".join(p[1] for p in t[1])
        if k == "ref":
            d = t[1]
            if d.kind in ("param", "index"):
                if d.uid not in self.bind:
                    raise Failure("harness", "unbound %r" % d)
                v = self.bind[d.uid]
            elif d.kind == "var":
                v = self.vars.get((d.uid, self.chain))
                if v is None:
                    raise Failure("harness", "variable %r read before its first definition" % d)
            else:
                v = self.claimed(d)
            if isinstance(v, str):
                return v
            if t[2] == "<":
                return v & 255
            if t[2] == ">":
                return (v >> 8) & 255
            return v
        if k == "blk":
            st = self.block_stmt[t[1].uid]
            return self.claimed_block(st, t[2])
        if k == "un":
            return ev.evaluate(("un", t[1], ("num", self.value(t[2], site), None)), {}, 0)
        if k == "bin":
            a, b = self.value(t[2], site), self.value(t[3], site)
            try:
                return ev.evaluate(("bin", t[1], ("num", a, None), ("num", b, None)), {}, 0)
            except ev.OutOfDomain as e:
                raise OutOfDomain(str(e))
        raise ValueError(k)

    # ---- emission
    def seg(self):
        if self.cur is None:
            raise Failure("harness", "no current segment")
        return self.segs[self.cur]

    def emit(self, st, mark, bs):
        seg = self.seg()
        self.emissions.append((st, mark, seg.tpc(), len(bs), self.chain, seg.name))
        seg.emit(bs)

    def run(self):
        self.block_stmt = {}
        for s in self.prog.all_stmts():
            if getattr(s, "bscope", None) is not None:
                self.block_stmt[s.bscope.uid] = s
        if not self.prog.has_segments:
            self.segs["default"] = Seg("default", self.base_pc, self.base_pc)
            self.cur = "default"
        self.body(self.prog.files[self.prog.main])

    def body(self, stmts):
        for s in stmts:
            self.stmt(s)

    def check(self, cond, kind, msg, st=None):
        self.obligations += 1
        if not cond:
            raise Failure(kind, msg, st)

    def block_obligations(self, st, body_fn, else_=False):
        in_loop = self.loop_depth > 0
        if not in_loop:
            v = self.claimed_block(st, "-", else_)
            self.check(v == self.seg().tpc(), "block-start", "'-' of block at %s claims $%X, next byte is at $%X" % (st.marks.get("lbrace"), v, self.seg().tpc()), st)
        body_fn()
        if not in_loop:
            v = self.claimed_block(st, "+", else_)
            self.check(v == self.seg().tpc(), "block-end", "'+' of block at %s claims $%X, next byte is at $%X" % (st.marks.get("rbrace"), v, self.seg().tpc()), st)

    def stmt(self, s):
        k = s.k
        if k == "instr":
            pc = self.seg().tpc()
            if s.form == "none":
                v = 0
            else:
                v = self.value(s.expr, s.scope)
                if isinstance(v, str):
                    raise Failure("harness", "string operand")
                if not 0 <= v <= 0xFFFF:
                    raise OutOfDomain("operand %d" % v)
            bs = isa.encode(s.mn, s.form, v, pc)
            if bs is None:
                raise Failure("illegal-accepted", "%s %s with value $%X at $%X is not encodable, yet the build succeeded" % (s.mn, s.form, v, pc), s)
            if s.form in ("v", "v,x", "v,y") and s.mn not in isa.BRANCHES and s.expr[0] != "num":
                self.notes.setdefault("sizes", []).append(len(bs))
            self.emit(s, "full", bs)
        elif k == "data":
            width = {".byte": 1, ".word": 2, ".dword": 4}[s.size]
            for i, e in enumerate(s.exprs):
                v = self.value(e, s.scope)
                if isinstance(v, str):
                    raise Failure("harness", "string in data")
                self.emit(s, "expr%d" % i, (v & ((1 << (8 * width)) - 1)).to_bytes(width, "little"))
        elif k == "text":
            out = []
            for ch in s.text:
                c = ord(ch)
                if s.enc in (None, "ascii"):
                    out.append(c)
                elif s.enc == "petscii":
                    out.append(0x41 + LOWER.index(ch) if ch in LOWER else c)
                else:
                    out.append(1 + LOWER.index(ch) if ch in LOWER else (0 if ch == "@" else c))
            self.emit(s, "expr", bytes(out))
        elif k == "label":
            v = self.claimed(s.d)
            self.check(v == self.seg().tpc(), "label", "label %s claims $%X, next byte is placed at $%X" % (s.d.name, v, self.seg().tpc()), s)
            if s.block is not None:
                self.block_obligations(s, lambda: self.body(s.block))
        elif k == "braces":
            self.block_obligations(s, lambda: self.body(s.block))
        elif k == "const":
            v = self.claimed(s.d)
            want = self.value(s.expr, s.scope)
            self.check(v == want, "const", "constant %s claims %r, its expression evaluates to %r" % (s.d.name, v, want), s)
        elif k == "var":
            self.vars[(s.d.uid, self.chain)] = self.value(s.expr, s.scope)
        elif k == "setpc":
            seg = self.seg()
            seg.pc = seg.pc + s.delta       # `* = * + n`: n bytes further, where the bytes are stored and where they run
        elif k == "testraw":
            pass        # a test is only assembled by `mos test`
        elif k == "align":
            seg = self.seg()
            pad = s.n - seg.tpc() % s.n if self.align_full else (-seg.tpc()) % s.n
            self.emit(s, "expr", bytes(pad))
        elif k == "segdef":
            self.segs[s.name] = Seg(s.name, s.start, s.pc if s.pc is not None else s.start)
            if self.cur is None:
                self.cur = s.name
        elif k == "seguse":
            if s.block is not None:
                old = self.cur
                self.cur = s.name
                self.body(s.block)
                self.cur = old
            else:
                self.cur = s.name
        elif k == "loop":
            self.loop_depth += 1
            for i in range(s.count):
                self.bind[s.index.uid] = i
                self.body(s.block)
            self.bind.pop(s.index.uid, None)
            self.loop_depth -= 1
        elif k == "if":
            c = self.value(s.cond, s.scope)
            if bool(c) != bool(s.taken):
                raise Failure("harness", "generator intended taken=%s but the condition evaluates to %r" % (s.taken, c), s)
            if c:
                self.body(s.then)
            elif s.else_ is not None:
                self.body(s.else_)
        elif k == "macrodef":
            pass
        elif k == "macrocall":
            args = [self.value(a, s.scope) for a in s.args]
            idx = self.macro_counter
            self.macro_counter += 1
            saved_chain, saved_bind = self.chain, dict(self.bind)
            self.chain = self.chain + (idx,)
            for p, v in zip(s.m.params, args):
                self.bind[p.uid] = v
            start = len(self.emissions)
            self.body(s.m.block)
            for i in range(start, len(self.emissions)):
                self.emissions[i] = self.emissions[i] + (s,)
            self.chain, self.bind = saved_chain, saved_bind
        elif k == "import":
            if s.block is not None:
                self.body(s.block)
            self.body(self.prog.files[s.file])
        elif k == "raw":
            raise OutOfDomain("raw statement")
        else:
            raise ValueError(k)


def check(prog, ctx, base_pc):
    """Returns (verdict, detail, walker). verdict: ok | ood | fail"""
    last = None
    first = None
    for align_full in (True, False):
        w = Walker(prog, ctx, base_pc, align_full)
        try:
            w.run()
            # compare images
            segs = {s["name"]: s for s in ctx["segments"]}
            for name, seg in w.segs.items():
                got = segs.get(name)
                if got is None:
                    raise Failure("segment-missing", "segment %s missing from the result" % name)
                img = seg.image()
                gb = bytes.fromhex(got["bytes"])
                if img != gb or (seg.lo is not None and (got["start"], got["end"]) != (seg.lo, seg.hi)):
                    n = min(len(img), len(gb))
                    i = next((k for k in range(n) if img[k] != gb[k]), n)
                    addr = (seg.lo or 0) + i
                    culprit = None
                    for em in w.emissions:
                        st, mark, tpc, ln = em[0], em[1], em[2], em[3]
                        if em[5] == name and tpc - seg.offset <= addr < tpc - seg.offset + max(ln, 1):
                            culprit = st
                    raise Failure("image", "segment %s differs at $%04X (offset %d): expected %s..., assembler has %s... (ranges expected %s, got %s)" % (
                        name, addr, i, img[i:i + 6].hex(), gb[i:i + 6].hex(), (seg.lo, seg.hi), (got["start"], got["end"])), culprit)
                w.obligations += len(img)
            for name in segs:
                if name not in w.segs:
                    raise Failure("segment-extra", "unexpected segment %s" % name)
            return "ok", None, w
        except OutOfDomain as e:
            return "ood", str(e), w
        except Failure as f:
            last = (f, w)
            if first is None:
                first = (f, w)
            if f.kind == "harness":
                break
            if not any(s.k == "align" for s in prog.all_stmts()):
                break
    f, w = first
    if last[0] is not f:
        f.msg += "  [with the alternative .align padding rule: %s]" % last[0].msg
    return ("harness" if f.kind == "harness" else "fail"), f, w
