"""Reference interpreter for a modelled 6502 subset, executing an *abstract* test body (not assembled bytes).

Items of a body:  ("ins", mnemonic, mode, operand)   ("label", name)   ("assert", slot_id)
modes: imp | imm (operand int) | zp / abs (operand int address) | zpx (address, indexed by X) | rel / jmp / jsr (operand label)
Flags are kept as booleans N V Z C. BRK ends the run.
"""

CYCLES = {"imp": 2, "imm": 2, "zp": 3, "abs": 4, "zpx": 4}


class Machine:
    def __init__(self, body, on_assert, max_steps=20000, base=0xC000, keep_trace=True):
        self.body = body
        self.labels = {it[1]: i for i, it in enumerate(body) if it[0] == "label"}
        self.a = self.x = self.y = 0
        self.n = self.v = self.z = self.c = False
        self.mem = {}
        self.stack = []
        self.pc = 0
        self.steps = 0
        self.max_steps = max_steps
        self.on_assert = on_assert
        self.keep_trace = keep_trace
        self.trace = []           # (index in body, a, x, y, n, v, z, c, cycles, depth) before each executed instruction
        self.cycles = 0
        self.depth = 0
        # addresses: sizes follow from the addressing forms
        self.addr = {}
        a = base
        for i, it in enumerate(body):
            self.addr[i] = a
            if it[0] == "ins":
                a += {"imp": 1, "imm": 2, "zp": 2, "zpx": 2, "abs": 3, "rel": 2, "jmp": 3, "jsr": 3}[it[2]]
        self.addr[len(body)] = a

    def next_ins(self, i):
        while i < len(self.body) and self.body[i][0] != "ins":
            i += 1
        return i

    def rd(self, addr):
        return self.mem.get(addr & 0xFFFF, 0)

    def wr(self, addr, v):
        self.mem[addr & 0xFFFF] = v & 255

    def nz(self, v):
        self.n = bool(v & 128)
        self.z = (v & 255) == 0
        return v & 255

    def operand_value(self, mode, op):
        if mode == "imm":
            return op
        if mode in ("zp", "abs"):
            return self.rd(op)
        if mode == "zpx":
            return self.rd((op + self.x) & 255)
        raise ValueError(mode)

    def operand_addr(self, mode, op):
        if mode in ("zp", "abs"):
            return op
        if mode == "zpx":
            return (op + self.x) & 255
        raise ValueError(mode)

    def run(self):
        """Returns ("brk", None) | ("assert-failed", slot) | ("steps", None)"""
        while True:
            if self.pc >= len(self.body):
                return ("fell-off", None)
            it = self.body[self.pc]
            if it[0] == "label":
                self.pc += 1
                continue
            if it[0] == "assert":
                if not self.on_assert(self, it[1]):
                    return ("assert-failed", it[1])
                self.pc += 1
                continue
            self.steps += 1
            if self.steps > self.max_steps:
                return ("steps", None)
            _, mn, mode, op = it
            if self.keep_trace:
                self.trace.append((self.pc, self.a, self.x, self.y, self.n, self.v, self.z, self.c, self.cycles, self.depth))
            if mn == "brk":
                return ("brk", None)
            self.step(mn, mode, op)

    def step(self, mn, mode, op):
        nxt = self.pc + 1
        cyc = CYCLES.get(mode, 2)
        if mn == "lda":
            self.a = self.nz(self.operand_value(mode, op))
        elif mn == "ldx":
            self.x = self.nz(self.operand_value(mode, op))
        elif mn == "ldy":
            self.y = self.nz(self.operand_value(mode, op))
        elif mn == "sta":
            self.wr(self.operand_addr(mode, op), self.a)
        elif mn == "stx":
            self.wr(self.operand_addr(mode, op), self.x)
        elif mn == "sty":
            self.wr(self.operand_addr(mode, op), self.y)
        elif mn == "tax":
            self.x = self.nz(self.a)
        elif mn == "tay":
            self.y = self.nz(self.a)
        elif mn == "txa":
            self.a = self.nz(self.x)
        elif mn == "tya":
            self.a = self.nz(self.y)
        elif mn == "inx":
            self.x = self.nz(self.x + 1)
        elif mn == "iny":
            self.y = self.nz(self.y + 1)
        elif mn == "dex":
            self.x = self.nz(self.x - 1)
        elif mn == "dey":
            self.y = self.nz(self.y - 1)
        elif mn in ("inc", "dec"):
            a = self.operand_addr(mode, op)
            self.wr(a, self.nz(self.rd(a) + (1 if mn == "inc" else -1)))
            cyc += 2
        elif mn == "and":
            self.a = self.nz(self.a & self.operand_value(mode, op))
        elif mn == "ora":
            self.a = self.nz(self.a | self.operand_value(mode, op))
        elif mn == "eor":
            self.a = self.nz(self.a ^ self.operand_value(mode, op))
        elif mn == "adc":
            m = self.operand_value(mode, op)
            r = self.a + m + (1 if self.c else 0)
            self.v = bool((~(self.a ^ m) & (self.a ^ r)) & 0x80)
            self.c = r > 255
            self.a = self.nz(r)
        elif mn == "sbc":
            m = self.operand_value(mode, op) ^ 0xFF
            r = self.a + m + (1 if self.c else 0)
            self.v = bool((~(self.a ^ m) & (self.a ^ r)) & 0x80)
            self.c = r > 255
            self.a = self.nz(r)
        elif mn in ("cmp", "cpx", "cpy"):
            reg = {"cmp": self.a, "cpx": self.x, "cpy": self.y}[mn]
            m = self.operand_value(mode, op)
            self.c = reg >= m
            self.nz(reg - m)
        elif mn == "clc":
            self.c = False
        elif mn == "sec":
            self.c = True
        elif mn == "nop":
            pass
        elif mn == "pha":
            self.stack.append(("v", self.a))
            cyc = 3
        elif mn == "pla":
            k, v = self.stack.pop()
            self.a = self.nz(v)
            cyc = 4
        elif mn in ("beq", "bne", "bcc", "bcs", "bmi", "bpl", "bvc", "bvs"):
            cond = {"beq": self.z, "bne": not self.z, "bcc": not self.c, "bcs": self.c, "bmi": self.n, "bpl": not self.n, "bvc": not self.v, "bvs": self.v}[mn]
            cyc = 2
            if cond:
                nxt = self.labels[op]
                cyc = 3
                # a taken branch to another page costs one more cycle
                if (self.addr[self.pc + 1] & 0xFF00) != (self.addr[self.next_ins(nxt)] & 0xFF00):
                    cyc = 4
        elif mn == "jmp":
            nxt = self.labels[op]
            cyc = 3
        elif mn == "jsr":
            self.stack.append(("ret", self.pc + 1))
            nxt = self.labels[op]
            cyc = 6
            self.depth += 1
        elif mn == "rts":
            k, v = self.stack.pop()
            nxt = v
            cyc = 6
            self.depth -= 1
        else:
            raise ValueError(mn)
        self.cycles += cyc
        self.pc = nxt
