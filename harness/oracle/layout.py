"""Expected output files for a bank/segment configuration, following the statement of property C09 literally.

config = {
  "banks": [ {"name", "size"|None, "fill"|None, "filename"|None, "create_segment": bool} ],   # definition order; [] = implicit default bank
  "segments": [ {"name", "start", "pc"|None, "write": bool, "bank"|None, "data": bytes} ],       # definition order
  "format": "prg"|"bin"|None, "output_filename": str|None, "entry_stem": "main"
}
Returns ("ok", {filename: bytes}) or ("error", reason).
"""


def expected(cfg):
    banks = cfg["banks"] or [{"name": "default", "size": None, "fill": None, "filename": None, "create_segment": False}]
    implicit = not cfg["banks"]
    names = [b["name"] for b in banks]
    segs = cfg["segments"]
    # assignment
    for s in segs:
        b = s["bank"]
        if b is None:
            if implicit or len(segs) == 1:
                s = s  # goes to the (first) bank
            else:
                return "error", "segment %s is assigned to no bank" % s["name"]
        elif b not in names:
            return "error", "segment %s is assigned to unknown bank %s" % (s["name"], b)
    for s in segs:
        if s["start"] + len(s["data"]) > 0x10000 or s["start"] < 0:
            return "error", "data outside $0000-$FFFF"
    fmt = cfg["format"] or ("prg" if len(banks) == 1 else "bin")
    if cfg["format"] == "prg" and len(banks) != 1:
        return "error", "prg needs exactly one bank"
    images = []
    for b in banks:
        mine = [s for s in segs if (s["bank"] or banks[0]["name"]) == b["name"] and s["write"] and s["data"]]
        fill = b["fill"] if b["fill"] is not None else 0
        if mine:
            lo = min(s["start"] for s in mine)
            hi = max(s["start"] + len(s["data"]) for s in mine)
            img = bytearray([fill & 255] * (hi - lo))
            for s in mine:  # later-defined segments win overlaps
                img[s["start"] - lo:s["start"] - lo + len(s["data"])] = s["data"]
        else:
            lo, img = 0, bytearray()
        if b["size"] is not None:
            if len(img) > b["size"]:
                return "error", "bank %s larger than its size" % b["name"]
            if len(img) < b["size"]:
                if b["fill"] is None:
                    return "error", "bank %s short without fill" % b["name"]
                img += bytearray([b["fill"] & 255] * (b["size"] - len(img)))
        images.append((b, lo, bytes(img)))
    default_name = cfg["output_filename"] or "%s.%s" % (cfg.get("entry_stem", "main"), fmt)
    files = {}
    order = []
    for k, (b, lo, img) in enumerate(images):
        fn = b["filename"] or default_name
        if fn not in files:
            files[fn] = b""
            order.append(fn)
        if fmt == "prg" and k == 0:
            # "prg output is prefixed with the start address of the first bank": the prefix belongs to the file that holds that bank
            files[fn] += bytes([lo & 255, (lo >> 8) & 255])
        files[fn] += img
    return "ok", files
