"""A small independent tokenizer of the surface syntax (does not go through the parser under test).

tokens(text) -> list of (kind, text) with kind in: word, num, str, punct, comment
Whitespace is dropped. Nested /* */ comments are honoured. `//` comments run to the end of the line.
"""


def tokens(text):
    out = []
    i, n = 0, len(text)
    while i < n:
        c = text[i]
        if c in " \t\r\n":
            i += 1
        elif text.startswith("//", i):
            j = i
            while j < n and text[j] not in "\r\n":
                j += 1
            out.append(("comment", text[i:j]))
            i = j
        elif text.startswith("/*", i):
            depth, j = 1, i + 2
            while j < n and depth:
                if text.startswith("/*", j):
                    depth += 1
                    j += 2
                elif text.startswith("*/", j):
                    depth -= 1
                    j += 2
                else:
                    j += 1
            out.append(("comment", text[i:j]))
            i = j
        elif c == '"':
            j = i + 1
            while j < n and text[j] != '"' and text[j] not in "\r\n":
                j += 1
            out.append(("str", text[i:j + 1]))
            i = j + 1
        elif c.isalpha() or c == "_" or (c == "." and i + 1 < n and text[i + 1].isalpha()):
            j = i + 1
            while j < n and (text[j].isalnum() or text[j] == "_"):
                j += 1
            out.append(("word", text[i:j]))
            i = j
        elif c.isdigit() or (c == "$" and i + 1 < n and text[i + 1] in "0123456789abcdefABCDEF") or (c == "%" and i + 1 < n and text[i + 1] in "01"):
            j = i + 1
            while j < n and text[j].isalnum():
                j += 1
            out.append(("num", text[i:j]))
            i = j
        else:
            two = text[i:i + 2]
            if two in ("<<", ">>", "==", "!=", ">=", "<=", "&&", "||"):
                out.append(("punct", two))
                i += 2
            else:
                out.append(("punct", c))
                i += 1
    return out


def code_tokens(text):
    """Token texts without comments; words and numbers lower-cased (casing options of the formatter), strings verbatim."""
    return [t if k == "str" else t.lower() for k, t in tokens(text) if k != "comment"]


def comments(text):
    """Comment texts in order, whitespace collapsed."""
    return [" ".join(t.split()) for k, t in tokens(text) if k == "comment"]
