"""Shared infrastructure: paths, builds, probe client, sharded execution, verdict/evidence plumbing.

Python stdlib only.
"""
import fcntl
import hashlib
import json
import os
import random
import select
import shutil
import signal
import subprocess
import sys
import tempfile
import time
import traceback
from concurrent.futures import ProcessPoolExecutor, as_completed

VERIF = os.path.dirname(os.path.dirname(os.path.abspath(__file__)))
REPO = os.environ.get("VERIF_REPO", "/repo")
BUILD = os.path.join(VERIF, ".build")
# where evidence/ and replays/ go; only redirected when the checks are pointed at a scratch tree (seeded changes)
OUT = os.environ.get("VERIF_OUT", VERIF)
NCPU = int(os.environ.get("VERIF_JOBS", str(os.cpu_count() or 16)))
os.environ["RUST_BACKTRACE"] = "0"
os.environ.setdefault("CARGO_NET_OFFLINE", "true")


def repo_tag():
    if REPO == "/repo":
        return "main"
    return hashlib.sha1(REPO.encode()).hexdigest()[:10]


def probe_bin():
    return os.path.join(BUILD, "probe-" + repo_tag(), "release", "mosprobe")


def mos_bin():
    if os.environ.get("VERIF_MOS_BIN"):       # (sanitizer slices run the same workloads against an instrumented build)
        return os.environ["VERIF_MOS_BIN"]
    return os.path.join(BUILD, "mos-" + repo_tag(), "release", "mos")


def _run_build(cmd, cwd, what):
    t0 = time.time()
    p = subprocess.run(cmd, cwd=cwd, stdout=subprocess.PIPE, stderr=subprocess.STDOUT, text=True)
    if p.returncode != 0:
        sys.stderr.write(p.stdout[-6000:])
        raise SystemExit("HARNESS-ERROR: build of %s failed (exit %d)" % (what, p.returncode))
    return time.time() - t0


def ensure_built(want_probe=True, want_mos=True, quiet=True):
    """Incremental offline builds of the probe and of `mos` (hooks on) against REPO's working tree."""
    os.makedirs(BUILD, exist_ok=True)
    lock = open(os.path.join(BUILD, "build-%s.lock" % repo_tag()), "w")
    fcntl.flock(lock, fcntl.LOCK_EX)
    try:
        times = {}
        if want_probe:
            src = os.path.join(BUILD, "probe-src-" + repo_tag())
            os.makedirs(os.path.join(src, "src"), exist_ok=True)
            toml = open(os.path.join(VERIF, "probe", "Cargo.toml")).read().replace('"/repo/mos-core"', '"%s/mos-core"' % REPO)
            _write_if_changed(os.path.join(src, "Cargo.toml"), toml)
            _write_if_changed(os.path.join(src, "Cargo.lock"), open(os.path.join(REPO, "Cargo.lock")).read())
            _write_if_changed(os.path.join(src, "src", "main.rs"), open(os.path.join(VERIF, "probe", "src", "main.rs")).read())
            times["probe"] = _run_build(
                ["cargo", "build", "--release", "--offline", "--target-dir", os.path.join(BUILD, "probe-" + repo_tag())],
                src, "probe")
        if want_mos:
            times["mos"] = _run_build(
                ["cargo", "build", "--release", "--offline", "--manifest-path", os.path.join(REPO, "mos", "Cargo.toml"),
                 "--features", "verif", "--target-dir", os.path.join(BUILD, "mos-" + repo_tag()),
                 "--config", "profile.release.lto=false", "--config", "profile.release.opt-level=2"],
                VERIF, "mos")
        return times
    finally:
        fcntl.flock(lock, fcntl.LOCK_UN)
        lock.close()


def _write_if_changed(path, text):
    try:
        if open(path).read() == text:
            return
    except OSError:
        pass
    with open(path, "w") as f:
        f.write(text)


# ----------------------------------------------------------------------------------------------
# probe client
class Probe:
    """One mosprobe child process. A request that kills the child is answered with {'died': ...}."""

    def __init__(self, timeout=60.0):
        self.timeout = timeout
        self.p = None
        self.n = 0
        self._start()

    def _start(self):
        self.errf = tempfile.TemporaryFile()
        self.p = subprocess.Popen([probe_bin()], stdin=subprocess.PIPE, stdout=subprocess.PIPE, stderr=self.errf, bufsize=0)
        self.buf = b""

    def close(self):
        if self.p:
            try:
                self.p.stdin.close()
            except Exception:
                pass
            try:
                self.p.wait(timeout=2)
            except Exception:
                self.p.kill()
            self.p = None

    def ask(self, req):
        self.n += 1
        req = dict(req)
        req["id"] = self.n
        data = (json.dumps(req) + "\n").encode()
        try:
            self.p.stdin.write(data)
            self.p.stdin.flush()
        except (BrokenPipeError, OSError):
            return self._dead()
        deadline = time.time() + self.timeout
        last_cpu, same = None, 0
        while b"\n" not in self.buf:
            left = deadline - time.time()
            if left <= 0:
                # watchdog: never a verdict by itself
                cpu = _proc_cpu(self.p.pid)
                self.p.kill()
                self.p.wait()
                self._start()
                return {"timeout": True, "cpu_s": cpu}
            r, _, _ = select.select([self.p.stdout], [], [], min(left, 1.0))
            if not r:
                # a probe that has been given a request and whose threads are all asleep without consuming any CPU for five
                # consecutive seconds is blocked for good (it never waits for anything but its own locks): a state, not a timeout
                cpu = _proc_cpu(self.p.pid)
                if cpu is not None and cpu == last_cpu and _proc_all_sleeping(self.p.pid):
                    same += 1
                    if same >= 5:
                        self.p.kill()
                        self.p.wait()
                        self._start()
                        return {"blocked": True, "cpu_s": cpu}
                else:
                    same = 0
                last_cpu = cpu
            if r:
                chunk = os.read(self.p.stdout.fileno(), 1 << 20)
                if not chunk:
                    return self._dead()
                self.buf += chunk
        line, self.buf = self.buf.split(b"\n", 1)
        try:
            return json.loads(line)
        except ValueError:
            return {"harness_error": "bad json from probe", "raw": line[:200].decode("latin1")}

    def _dead(self):
        rc = self.p.wait()
        try:
            self.errf.seek(0)
            err = self.errf.read()[-600:].decode("utf8", "replace")
        except Exception:
            err = ""
        self._start()
        return {"died": rc, "stderr": err}


def _proc_all_sleeping(pid):
    try:
        states = []
        for t in os.listdir("/proc/%d/task" % pid):
            states.append(open("/proc/%d/task/%s/stat" % (pid, t)).read().rsplit(")", 1)[1].split()[0])
        return bool(states) and all(st == "S" for st in states)
    except Exception:
        return False


def _proc_cpu(pid):
    try:
        f = open("/proc/%d/stat" % pid).read().rsplit(")", 1)[1].split()
        return (int(f[11]) + int(f[12])) / os.sysconf("SC_CLK_TCK")
    except Exception:
        return None


# ----------------------------------------------------------------------------------------------
# accumulation of results in workers, merged in the parent
class Acc:
    """What one shard observed. Plain data so it can cross process boundaries."""

    def __init__(self):
        self.counts = {}
        self.violations = []      # list of dict(signature, summary, witness)
        self.inconclusive = []    # list of str
        self.samples = []
        self.nontrivial = set()   # hashes of distinct non-trivial cases
        self.sets = {}            # name -> set of small hashable things (coverage)
        self.evaluations = 0

    def count(self, key, n=1):
        self.counts[key] = self.counts.get(key, 0) + n

    def cover(self, name, item):
        self.sets.setdefault(name, set()).add(item)

    def violation(self, signature, summary, witness):
        if len([v for v in self.violations if v["signature"] == signature]) < 3:
            self.violations.append({"signature": signature, "summary": summary, "witness": witness})
        self.count("violations_raw")

    def inconc(self, reason):
        self.count("inconclusive")
        if len(self.inconclusive) < 20:
            self.inconclusive.append(reason)

    def sample(self, obj, cap=4):
        if len(self.samples) < cap:
            self.samples.append(obj)

    def nontriv(self, *key):
        h = hashlib.blake2b(repr(key).encode(), digest_size=8).digest()
        self.nontrivial.add(h)

    def merge(self, other):
        for k, v in other.counts.items():
            self.counts[k] = self.counts.get(k, 0) + v
        self.violations.extend(other.violations)
        self.inconclusive.extend(other.inconclusive)
        self.samples.extend(other.samples)
        self.nontrivial |= other.nontrivial
        for k, v in other.sets.items():
            self.sets.setdefault(k, set()).update(v)
        self.evaluations += other.evaluations


def _shard_entry(fn, idx, n, seed, tier, params):
    try:
        acc = fn(idx, n, seed, tier, params)
        return acc
    except BaseException:
        a = Acc()
        a.counts["harness_errors"] = 1
        a.inconclusive.append("shard %d crashed: %s" % (idx, traceback.format_exc()[-1500:]))
        return a


def run_sharded(fn, seed, tier, params=None, nshards=None):
    """Runs fn(idx, n, seed, tier, params)->Acc in nshards processes and merges the results."""
    nshards = nshards or NCPU
    total = Acc()
    with ProcessPoolExecutor(max_workers=min(nshards, NCPU)) as ex:
        futs = [ex.submit(_shard_entry, fn, i, nshards, seed, tier, params) for i in range(nshards)]
        for f in as_completed(futs):
            total.merge(f.result())
    return total


# ----------------------------------------------------------------------------------------------
# known findings
def load_known():
    path = os.path.join(VERIF, "known_findings.json")
    try:
        return json.load(open(path))
    except OSError:
        return {"findings": [], "fixed": []}


def finish(prop, tier, seed, acc, t0, rule, level="exploration", assumptions=None, extra=None, min_nontrivial=2):
    """Classifies violations against known findings, writes evidence and replays, prints the verdict, returns exit code."""
    known = [k for k in load_known().get("findings", []) if k.get("property") == prop]
    known_sigs = {k["signature"]: k for k in known}
    seen_known = {}
    new = {}
    for v in acc.violations:
        sig = v["signature"]
        if sig in known_sigs:
            seen_known.setdefault(sig, v)
        else:
            new.setdefault(sig, v)
    os.makedirs(os.path.join(OUT, "replays"), exist_ok=True)
    os.makedirs(os.path.join(OUT, "evidence"), exist_ok=True)
    lines = []
    for sig, v in seen_known.items():
        lines.append("KNOWN-FINDING: property=%s %s [%s]" % (prop, known_sigs[sig].get("what", v["summary"]), sig))
    rc = 0
    for i, (sig, v) in enumerate(sorted(new.items())):
        h = hashlib.sha1(sig.encode()).hexdigest()[:10]
        path = os.path.join(OUT, "replays", "%s-%s.json" % (prop, h))
        with open(path, "w") as f:
            json.dump({"property": prop, "signature": sig, "summary": v["summary"], "seed": seed, "tier": tier,
                       "witness": v["witness"]}, f, indent=1, default=str)
        lines.append("VIOLATION property=%s replay=%s" % (prop, path))
        lines.append("  signature: %s" % sig)
        lines.append("  summary:   %s" % v["summary"][:600])
        rc = 1
    harness_fail = None
    if acc.counts.get("harness_errors"):
        harness_fail = "shard crashed: " + "; ".join(acc.inconclusive[:2])
    elif acc.evaluations == 0:
        harness_fail = "no evaluations"
    elif len(acc.nontrivial) < min_nontrivial:
        harness_fail = "observed fewer than %d distinct non-trivial cases" % min_nontrivial
    cov = {
        "evaluations": acc.evaluations,
        "distinct_nontrivial": len(acc.nontrivial),
        "rule": rule,
        "samples": acc.samples[:8] if acc.samples else ["<none>"],
        "counts": dict(sorted(acc.counts.items())),
        "coverage_sets": {k: (len(v), sorted(map(str, v))[:40]) for k, v in sorted(acc.sets.items())},
        "inconclusive": acc.counts.get("inconclusive", 0),
        "inconclusive_reasons": acc.inconclusive[:10],
        "known_findings_observed": sorted(seen_known),
        "new_violation_signatures": sorted(new),
    }
    if extra:
        cov.update(extra)
    ev = {
        "property_id": prop,
        "tier": tier if tier in ("quick", "thorough") else "quick",
        "seed": int(seed),
        "level": level,
        "coverage": cov,
        "assumptions": assumptions or [],
        "wall_s": round(time.time() - t0, 2),
        "violations": len(new),
    }
    with open(os.path.join(OUT, "evidence", "%s.json" % prop), "w") as f:
        json.dump(ev, f, indent=1, default=str)
    for l in lines:
        print(l)
    print("%s tier=%s seed=%s evaluations=%d distinct_nontrivial=%d known=%d new=%d inconclusive=%d wall=%.1fs" % (
        prop, tier, seed, acc.evaluations, len(acc.nontrivial), len(seen_known), len(new),
        acc.counts.get("inconclusive", 0), time.time() - t0))
    if harness_fail and rc == 0:
        print("HARNESS-FAILURE: %s" % harness_fail)
        return 2
    return rc


def rng_for(seed, *parts):
    h = hashlib.sha256(("%s|%s" % (seed, "|".join(map(str, parts)))).encode()).digest()
    return random.Random(int.from_bytes(h[:8], "big"))


class TempProject:
    """A throw-away project directory (under $TMPDIR, removed on exit)."""

    def __init__(self, files, toml=""):
        self.files = files
        self.toml = toml

    def __enter__(self):
        self.dir = tempfile.mkdtemp(prefix="mosverif-")
        for name, text in self.files.items():
            path = os.path.join(self.dir, name)
            os.makedirs(os.path.dirname(path), exist_ok=True)
            mode = "wb" if isinstance(text, bytes) else "w"
            with open(path, mode, **({} if mode == "wb" else {"newline": ""})) as f:
                f.write(text)
        with open(os.path.join(self.dir, "mos.toml"), "w") as f:
            f.write(self.toml)
        return self

    def __exit__(self, *a):
        shutil.rmtree(self.dir, ignore_errors=True)


def run_mos(args, cwd, timeout=60, env=None, stdin=None):
    """Runs the real mos binary. Returns dict(rc, out, err, timeout)."""
    e = dict(os.environ)
    e["MOS_VERIF_PASSES"] = e.get("MOS_VERIF_PASSES", "1500")
    e["MOS_VERIF_WORK"] = e.get("MOS_VERIF_WORK", "20000000")
    if env:
        e.update(env)
    try:
        p = subprocess.run([mos_bin()] + args, cwd=cwd, stdout=subprocess.PIPE, stderr=subprocess.PIPE, timeout=timeout, env=e, input=stdin)
        return {"rc": p.returncode, "out": p.stdout.decode("utf8", "replace"), "err": p.stderr.decode("utf8", "replace"), "timeout": False}
    except subprocess.TimeoutExpired as ex:
        return {"rc": None, "out": (ex.stdout or b"").decode("utf8", "replace"), "err": (ex.stderr or b"").decode("utf8", "replace"), "timeout": True}
