"""JSON-RPC client for the real `mos lsp` process (stdio), plus helpers shared by the LSP monitors."""
import json
import os
import queue
import random
import socket
import subprocess
import threading
import time
import urllib.parse

from ..common import mos_bin


def uri_of(path):
    return "file://" + urllib.parse.quote(path)


def free_port():
    for _ in range(50):
        port = random.randrange(20000, 60000)
        s = socket.socket()
        try:
            s.bind(("127.0.0.1", port))
            s.close()
            return port
        except OSError:
            s.close()
    raise RuntimeError("no free port")


class LspServer:
    def __init__(self, cwd, env=None, port=None):
        self.cwd = cwd
        self.port = port or free_port()
        e = dict(os.environ)
        e["MOS_VERIF_PASSES"] = "1500"
        e["RUST_BACKTRACE"] = "0"
        if env:
            e.update(env)
        self.p = subprocess.Popen([mos_bin(), "lsp", "-p", str(self.port)], cwd=cwd, stdin=subprocess.PIPE, stdout=subprocess.PIPE, stderr=subprocess.PIPE, env=e)
        self.msgs = queue.Queue()
        self.responses = {}
        self.diagnostics = {}       # uri -> last published list
        self.diag_history = []      # (uri, list)
        self.next_id = 1
        self.stderr = b""
        self.lock = threading.Lock()
        self.reader = threading.Thread(target=self._read, daemon=True)
        self.reader.start()
        self.err_reader = threading.Thread(target=self._read_err, daemon=True)
        self.err_reader.start()
        self.eof = threading.Event()
        self.log = []               # (direction, message) for witnesses

    def _read_err(self):
        try:
            while True:
                chunk = self.p.stderr.read(4096)
                if not chunk:
                    break
                self.stderr += chunk
        except Exception:
            pass

    def _read(self):
        f = self.p.stdout
        try:
            while True:
                headers = {}
                while True:
                    line = f.readline()
                    if not line:
                        raise EOFError
                    line = line.strip()
                    if not line:
                        break
                    k, _, v = line.partition(b":")
                    headers[k.strip().lower()] = v.strip()
                n = int(headers.get(b"content-length", b"0"))
                body = f.read(n)
                if len(body) < n:
                    raise EOFError
                msg = json.loads(body)
                if "id" in msg and ("result" in msg or "error" in msg):
                    with self.lock:
                        self.responses[msg["id"]] = msg
                elif msg.get("method") == "textDocument/publishDiagnostics":
                    with self.lock:
                        self.diagnostics[msg["params"]["uri"]] = msg["params"]["diagnostics"]
                        self.diag_history.append((msg["params"]["uri"], msg["params"]["diagnostics"]))
                self.msgs.put(msg)
        except Exception:
            pass
        finally:
            self.eof.set()

    def send(self, msg):
        data = json.dumps(msg).encode()
        try:
            self.p.stdin.write(b"Content-Length: %d\r\n\r\n" % len(data) + data)
            self.p.stdin.flush()
            return True
        except (BrokenPipeError, OSError, ValueError):
            return False

    def notify(self, method, params):
        self.log.append(("notify", method, params))
        return self.send({"jsonrpc": "2.0", "method": method, "params": params})

    def request(self, method, params, timeout=20.0):
        """Returns the response message, or {"dead": exit status} / {"timeout": True}."""
        rid = self.next_id
        self.next_id += 1
        self.log.append(("request", method, params))
        if not self.send({"jsonrpc": "2.0", "id": rid, "method": method, "params": params}):
            return {"dead": self.p.poll()}
        deadline = time.time() + timeout
        while time.time() < deadline:
            with self.lock:
                if rid in self.responses:
                    return self.responses.pop(rid)
            if self.eof.is_set():
                # a last look: the response may have arrived just before EOF
                with self.lock:
                    if rid in self.responses:
                        return self.responses.pop(rid)
                try:
                    self.p.wait(timeout=2)
                except Exception:
                    pass
                return {"dead": self.p.poll()}
            time.sleep(0.002)
        # No response within the watchdog. A watchdog alone is never a verdict: look at what the process is doing. All threads
        # asleep and no CPU consumed for five consecutive seconds = blocked for good (the server waits for nothing but its own
        # locks and its input, and it has input); still computing = wait on (generously), then report it as busy.
        from ..common import _proc_cpu, _proc_all_sleeping
        last, same = None, 0
        extended = time.time() + 240
        while time.time() < extended:
            with self.lock:
                if rid in self.responses:
                    return self.responses.pop(rid)
            if self.p.poll() is not None:
                return {"dead": self.p.poll()}
            cpu = _proc_cpu(self.p.pid)
            if cpu is not None and cpu == last and _proc_all_sleeping(self.p.pid):
                same += 1
                if same >= 5:
                    return {"timeout": True, "blocked": True}
            else:
                same = 0
            last = cpu
            time.sleep(1.0)
        return {"timeout": True, "busy": True}

    def initialize(self):
        r = self.request("initialize", {"processId": None, "rootUri": uri_of(self.cwd), "capabilities": {}})
        self.notify("initialized", {})
        return r

    def did_open(self, path, text):
        return self.notify("textDocument/didOpen", {"textDocument": {"uri": uri_of(path), "languageId": "asm", "version": 1, "text": text}})

    def did_change(self, path, text, version=2):
        return self.notify("textDocument/didChange", {"textDocument": {"uri": uri_of(path), "version": version}, "contentChanges": [{"text": text}]})

    def did_close(self, path):
        return self.notify("textDocument/didClose", {"textDocument": {"uri": uri_of(path)}})

    def barrier(self):
        """A cheap request whose response proves that everything sent before has been processed. (Not an outline request:
        those walk the whole project, and a defect that makes the walk leave traces in the analysis would be done to every
        server alike before the first question is asked.)"""
        return self.request("textDocument/codeLens", {"textDocument": {"uri": uri_of(os.path.join(self.cwd, "verif-barrier.asm"))}})

    def alive(self):
        return self.p.poll() is None

    def shutdown(self, timeout=10.0):
        r = self.request("shutdown", None, timeout=timeout)
        self.notify("exit", None)
        try:
            return r, self.p.wait(timeout=timeout)
        except subprocess.TimeoutExpired:
            return r, None

    def kill(self):
        try:
            self.p.kill()
            self.p.wait(timeout=5)
        except Exception:
            pass
        for f in (self.p.stdin, self.p.stdout, self.p.stderr):
            try:
                f.close()
            except Exception:
                pass


def apply_edits(text, edits):
    """Applies LSP TextEdits (all relative to the original text; character = UTF-16 code units) to text."""
    lines = text.split("\n")
    starts = [0]
    for l in lines[:-1]:
        starts.append(starts[-1] + len(l) + 1)

    def offset(pos):
        line = pos["line"]
        if line >= len(lines):
            return len(text)
        l = lines[line]
        # UTF-16 units -> python index
        units, idx = 0, 0
        while idx < len(l) and units < pos["character"]:
            units += 2 if ord(l[idx]) > 0xFFFF else 1
            idx += 1
        return starts[line] + idx
    spans = sorted(((offset(e["range"]["start"]), offset(e["range"]["end"]), e["newText"]) for e in edits), key=lambda x: (x[0], x[1]))
    out, cur = [], 0
    for a, b, new in spans:
        if a < cur:
            raise ValueError("overlapping edits")
        out.append(text[cur:a])
        out.append(new)
        cur = b
    out.append(text[cur:])
    return "".join(out)
