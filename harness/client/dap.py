"""Debug Adapter Protocol client (TCP) for the debug adapter inside `mos lsp`."""
import json
import socket
import threading
import time


class DapClient:
    def __init__(self, port, connect_timeout=10.0):
        self.port = port
        deadline = time.time() + connect_timeout
        self.sock = None
        while time.time() < deadline:
            try:
                self.sock = socket.create_connection(("127.0.0.1", port), timeout=2)
                break
            except OSError:
                time.sleep(0.02)
        if self.sock is None:
            raise ConnectionError("debug adapter not listening on %d" % port)
        self.sock.settimeout(None)
        # the adapter writes header and body separately: without quick ACKs every message costs a delayed-ACK interval (40 ms)
        self.sock.setsockopt(socket.IPPROTO_TCP, socket.TCP_NODELAY, 1)
        self._quickack()
        self.seq = 1
        self.responses = {}
        self.events = []          # (monotonic time, event message)
        self.lock = threading.Lock()
        self.closed = threading.Event()
        self.log = []
        self.reader = threading.Thread(target=self._read, daemon=True)
        self.reader.start()

    def _quickack(self):
        try:
            self.sock.setsockopt(socket.IPPROTO_TCP, socket.TCP_QUICKACK, 1)
        except (OSError, AttributeError):
            pass

    def _read(self):
        buf = b""
        try:
            while True:
                # a complete message in the buffer?
                sep = buf.find(b"\r\n\r\n")
                n = None
                if sep >= 0:
                    for line in buf[:sep].split(b"\r\n"):
                        if line.lower().startswith(b"content-length:"):
                            n = int(line.split(b":")[1])
                    if n is not None and len(buf) >= sep + 4 + n:
                        body = buf[sep + 4:sep + 4 + n]
                        buf = buf[sep + 4 + n:]
                        msg = json.loads(body)
                        with self.lock:
                            if msg.get("type") == "response":
                                self.responses[msg["request_seq"]] = msg
                            elif msg.get("type") == "event":
                                self.events.append((time.monotonic(), msg))
                        continue
                self._quickack()
                chunk = self.sock.recv(65536)
                self._quickack()       # acknowledge at once: the adapter's next small write waits for this ACK (Nagle)
                if not chunk:
                    raise EOFError
                buf += chunk
        except Exception:
            pass
        finally:
            self.closed.set()

    def send(self, command, arguments=None):
        seq = self.seq
        self.seq += 1
        msg = {"seq": seq, "type": "request", "command": command, "arguments": arguments}
        data = json.dumps(msg).encode()
        self.log.append((time.monotonic(), "->", command, arguments))
        try:
            self.sock.sendall(b"Content-Length: %d\r\n\r\n" % len(data) + data)
        except OSError:
            return None
        return seq

    def wait_response(self, seq, timeout=10.0):
        if seq is None:
            return {"dead": True}
        deadline = time.time() + timeout
        while time.time() < deadline:
            with self.lock:
                if seq in self.responses:
                    return self.responses.pop(seq)
            if self.closed.is_set():
                with self.lock:
                    if seq in self.responses:
                        return self.responses.pop(seq)
                return {"dead": True}
            time.sleep(0.001)
        return {"timeout": True}

    def request(self, command, arguments=None, timeout=10.0):
        r = self.wait_response(self.send(command, arguments), timeout)
        self.log.append((time.monotonic(), "<-", command, r if not isinstance(r, dict) else {k: r[k] for k in r if k != "body"} | {"body": r.get("body")}))
        return r

    def wait_event(self, name, since=0, timeout=10.0):
        """Returns (index, event) of the first event `name` at index >= since."""
        deadline = time.time() + timeout
        while time.time() < deadline:
            with self.lock:
                for i in range(since, len(self.events)):
                    if self.events[i][1].get("event") == name:
                        return i, self.events[i][1]
            if self.closed.is_set():
                return None, None
            time.sleep(0.001)
        return None, None

    def event_count(self):
        with self.lock:
            return len(self.events)

    def close(self):
        try:
            self.sock.shutdown(socket.SHUT_RDWR)
        except OSError:
            pass
        try:
            self.sock.close()
        except OSError:
            pass
