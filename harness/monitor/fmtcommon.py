"""Shared workload of C12 (formatting preserves meaning and comments) and C13 (formatting is idempotent)."""
import os
import re
import time

from ..common import Acc, Probe, TempProject, rng_for, run_mos
from ..gen import prog as P
from ..gen import render
from ..oracle import lexer
from . import c08


def random_options(rng):
    return {
        "mnemonics": {"casing": rng.choice(["lowercase", "uppercase"]), "register-casing": rng.choice(["lowercase", "uppercase"])},
        "braces": {"position": rng.choice(["same-line", "new-line"])},
        "whitespace": {"indent": rng.choice([0, 1, 2, 4, 4, 8]), "label-margin": rng.choice([0, 1, 5, 10, 20, 20, 30]),
                       "label-alignment": rng.choice(["left", "right"]), "code-margin": rng.choice([0, 1, 10, 30, 30, 40])},
    }


def options_toml(o):
    return ("[formatting]\nmnemonics.casing = '%s'\nmnemonics.register-casing = '%s'\nbraces.position = '%s'\nwhitespace.indent = %d\n"
            "whitespace.label-margin = %d\nwhitespace.label-alignment = '%s'\nwhitespace.code-margin = %d\n" % (
                o["mnemonics"]["casing"], o["mnemonics"]["register-casing"], o["braces"]["position"], o["whitespace"]["indent"],
                o["whitespace"]["label-margin"], o["whitespace"]["label-alignment"], o["whitespace"]["code-margin"]))


def opt_key(o):
    return "%s/%s/%s/i%d/lm%d%s/cm%d" % (o["mnemonics"]["casing"][0], o["mnemonics"]["register-casing"][0], o["braces"]["position"][0],
                                        o["whitespace"]["indent"], o["whitespace"]["label-margin"], o["whitespace"]["label-alignment"][0],
                                        o["whitespace"]["code-margin"])


def gen_case(rng, acc, clean=False):
    """A generated program in hostile layout -> (prog, files).

    clean=True stays outside the trigger features of the known formatter findings (multi-line block comments, comments
    around `else`), so that any violation found there is a new one."""
    prog = P.generate(rng, {"max_bytes": 250, "top_stmts": 9, "p_test": 0.35})
    lay = render.Hostile(rng, crlf=rng.random() < 0.2, multiline_block=not clean, else_comments=not clean)
    prog.clean = clean
    prog.has_else = any(s.k == "if" and s.else_ is not None for s in prog.all_stmts())
    try:
        files, _ = render.render_program(prog, lay)
    except render.SpellError:
        acc.count("generator.unspellable")
        return None
    prog.comment_meta = lay.comment_meta
    return prog, files


def comment_context(text, comment_start):
    """What precedes a comment on its line / what follows: coarse class for signatures."""
    ls = text.rfind("\n", 0, comment_start) + 1
    before = text[ls:comment_start].strip()
    if not before:
        return "own-line"
    toks = lexer.tokens(before)
    last = toks[-1][1] if toks else ""
    first = toks[0][1].lower() if toks else ""
    return "after:%s|stmt:%s" % (last if last in "{}:,()=" else toks[-1][0], first if first.startswith(".") else "other")


def lost_comment_signature(orig, formatted):
    co, cf = lexer.comments(orig), lexer.comments(formatted)
    # first comment of the original that is missing (as a multiset walk)
    j = 0
    for k, c in enumerate(co):
        if j < len(cf) and cf[j] == c:
            j += 1
            continue
        # locate it in the original text for context
        idx = -1
        pos = 0
        for kind, t in lexer.tokens(orig):
            pass
        # find the k-th comment's offset
        off = nth_comment_offset(orig, k)
        nxt = next_code_token(orig, off)
        return "comment-lost|%s|next:%s" % (comment_context(orig, off), nxt), c
    return "comment-added-or-reordered", (cf[j] if j < len(cf) else "")


CID = re.compile(r"c(\d+)z\b")


def lost_comment(prog, orig, formatted):
    """Every generated comment carries a unique id; the renderer knows at which boundary it was inserted."""
    ids_o = [int(m) for c in lexer.comments(orig) for m in CID.findall(c)[:1]]
    ids_f = [int(m) for c in lexer.comments(formatted) for m in CID.findall(c)[:1]]
    missing = [i for i in ids_o if i not in set(ids_f)]
    meta = getattr(prog, "comment_meta", {})
    if missing:
        out = []
        for m in missing:
            kind, stmt, what = meta.get(m, ("?", "?", "?"))
            out.append(("comment-lost|gap=%s|in=%s|before=%s" % (kind, stmt, what), "c%dz" % m))
        return out
    if sorted(ids_o) == sorted(ids_f):
        # all there, but the order changed
        k = next((i for i in range(len(ids_o)) if ids_o[i] != ids_f[i]), None)
        if k is None:
            co, cf = lexer.comments(orig), lexer.comments(formatted)
            j = next(i for i in range(min(len(co), len(cf))) if co[i] != cf[i]) if len(co) == len(cf) else 0
            return "comment-text-changed", "%r -> %r" % (co[j][:60], cf[j][:60] if j < len(cf) else None)
        kind, stmt, what = meta.get(ids_o[k], ("?", "?", "?"))
        return "comment-reordered|gap=%s|in=%s|before=%s" % (kind, stmt, what), "c%dz" % ids_o[k]
    return "comment-duplicated-or-invented", ""


def nth_comment_offset(text, k):
    i, n, cnt = 0, len(text), -1
    while i < n:
        if text.startswith("//", i):
            cnt += 1
            if cnt == k:
                return i
            while i < n and text[i] not in "\r\n":
                i += 1
        elif text.startswith("/*", i):
            cnt += 1
            if cnt == k:
                return i
            depth, i = 1, i + 2
            while i < n and depth:
                if text.startswith("/*", i):
                    depth += 1
                    i += 2
                elif text.startswith("*/", i):
                    depth -= 1
                    i += 2
                else:
                    i += 1
        elif text[i] == '"':
            i += 1
            while i < n and text[i] != '"' and text[i] not in "\r\n":
                i += 1
            i += 1
        else:
            i += 1
    return 0


def next_code_token(text, off):
    for kind, t in lexer.tokens(text[off:]):
        if kind != "comment":
            return t if t in "{}:,()=" else kind
    return "eof"


def run_case(acc, probe, prog, files, opts, want):
    """Formats once and twice; applies the C12 and/or C13 oracle. want: set of property ids."""
    acc.evaluations += 1
    r1 = probe.ask({"files": files, "ops": ["parse", "format", "codegen", "symbols"], "opts": {"formatting": opts, "pc": prog.base_pc}})
    if "parse" not in r1:
        acc.inconc("probe: %r" % (r1,))
        return
    if r1["parse"].get("diags"):
        acc.violation("generator|parse-error", "generated text does not parse: %s" % r1["parse"]["diags"][0]["msg"], {"files": files})
        return
    fmt = r1.get("format", {})
    for name, v in fmt.items():
        if isinstance(v, dict):
            acc.violation("format-panic|" + re.sub(r"[0-9]+", "N", v.get("panic", "?").split("@")[-1])[:60], "formatter panicked: %s" % v.get("panic"), {"files": files, "opts": opts})
            return
    acc.cover("option_sets", opt_key(opts))
    r2 = probe.ask({"files": fmt, "ops": ["parse", "format", "codegen", "symbols"], "opts": {"formatting": opts, "pc": prog.base_pc}})
    if "C13" in want:
        if r2.get("parse", {}).get("diags"):
            acc.count("formatted_text_does_not_parse(C12)")
        else:
            fmt2 = r2.get("format", {})
            changed_by_first = any(fmt[n] != files[n].replace("\r\n", "\n") for n in files)
            if changed_by_first:
                acc.nontriv(tuple(sorted(files.items())), opt_key(opts))
            for n in files:
                a, b = fmt[n], fmt2.get(n)
                if isinstance(b, dict):
                    acc.violation("format-panic-on-formatted-text", "formatter panicked on its own output: %s" % b.get("panic"), {"files": fmt, "opts": opts})
                    break
                if a != b:
                    al, bl = a.split("\n"), b.split("\n")
                    i = next((k for k in range(min(len(al), len(bl))) if al[k] != bl[k]), min(len(al), len(bl)))
                    line = al[i] if i < len(al) else ""
                    upto = sum(len(x) + 1 for x in al[:i])
                    in_block = a[:upto].count("/*") > a[:upto].count("*/")
                    cls = "inside-multiline-block-comment" if in_block else ("comment-line" if line.strip().startswith(("//", "/*")) else ("blank" if not line.strip() else "code-line"))
                    strip = lambda t: [x.strip() for x in t.split("\n")]
                    noblank = lambda t: [x for x in strip(t) if x]
                    if strip(a) == strip(b):
                        nature = "indentation-drift"
                    elif noblank(a) == noblank(b):
                        nature = "blank-line-drift"
                    elif "".join(a.split()) == "".join(b.split()):
                        nature = "line-break-drift"
                    else:
                        nature = "content-drift"
                    # In the full domain (multi-line block comments, comments around `else`, block comments in front of statements)
                    # the signature is the nature of the drift only; in the clean sub-domain it is specific.
                    sig = "not-idempotent|clean-subdomain|%s|%s" % (nature, cls) if getattr(prog, "clean", False) else "not-idempotent|full-domain|%s" % nature
                    acc.violation(sig, "second formatting changes line %d: %r -> %r" % (i + 1, line, bl[i] if i < len(bl) else None),
                                  {"original": files, "opts": opts, "formatted_once": fmt, "formatted_twice": fmt2, "file": n})
                    break
    if "C12" in want:
        acc.nontriv(tuple(sorted(files.items())), opt_key(opts))
        if r2.get("parse", {}).get("diags"):
            acc.violation("formatted-does-not-parse|" + re.sub(r"'.*'", "'..'", r2["parse"]["diags"][0]["msg"])[:50],
                          "formatted text has parse errors: %s" % [d["msg"] for d in r2["parse"]["diags"]][:3], {"original": files, "opts": opts, "formatted": fmt})
            return
        for n in files:
            to, tf = lexer.code_tokens(files[n]), lexer.code_tokens(fmt[n])
            if to != tf:
                i = next((k for k in range(min(len(to), len(tf))) if to[k] != tf[k]), min(len(to), len(tf)))
                acc.violation("tokens-differ|%s" % (to[i] if i < len(to) and not to[i][0].isalnum() else "word"),
                              "token sequence changed at token %d: %r -> %r" % (i, to[i - 2:i + 3], tf[i - 2:i + 3]), {"original": files, "opts": opts, "formatted": fmt, "file": n})
                return
            if lexer.comments(files[n]) != lexer.comments(fmt[n]):
                r = lost_comment(prog, files[n], fmt[n])
                seen = set()
                for sig, c in (r if isinstance(r, list) else [r]):
                    if sig not in seen:
                        seen.add(sig)
                        acc.violation(sig, "comment %r of %s is not in the formatted text (or the order changed)" % (c, n), {"original": files, "opts": opts, "formatted": fmt, "file": n})
                return
            acc.count("comments_compared", len(lexer.comments(files[n])))
        o1, o2 = c08.observe(r1), c08.observe(r2)
        if o1 != o2:
            acc.violation("meaning-changed|%s->%s" % (o1[0], o2[0]), c08.first_diff(o1, o2), {"original": files, "opts": opts, "formatted": fmt})
    return fmt


def cli_format_case(acc, rng, prog, files, opts, probe_fmt):
    """`mos format` rewrites each file with exactly the library's text; nothing is touched when any file has a parse error."""
    toml = options_toml(opts)
    acc.count("cli.format_runs")
    # the imported files get other names now and then: another extension, the stem of the main file, a subdirectory
    # (the formatter's text does not depend on the name of a file)
    others = sorted(n for n in files if n != "main.asm")
    if others and rng.random() < 0.5:
        new_names = {}
        # (names of the same length as the generated ones, so that the formatted text stays what the library produced)
        pool = ["main.inc", "main.mac", "gfx0.inc", "gfx0.asm", "lib0.inc"]
        rng.shuffle(pool)
        for n_, nn in zip(others, pool):
            if len(n_) == len(nn):
                new_names[n_] = nn
        ren = lambda t: __import__("functools").reduce(lambda acc_, kv: acc_.replace('"%s"' % kv[0], '"%s"' % kv[1]), new_names.items(), t)
        files = {new_names.get(n_, n_): ren(t) for n_, t in files.items()}
        probe_fmt = {new_names.get(n_, n_): ren(t) for n_, t in probe_fmt.items()}
        acc.count("cli.format_runs_with_renamed_files")
    with TempProject(files, toml) as tp:
        r = run_mos(["--no-color", "-e", "Short", "format"], tp.dir)
        if r["rc"] != 0:
            acc.violation("cli-format-failed", "mos format failed on an error-free project: %s" % (r["out"] + r["err"])[-200:], {"files": files, "opts": opts})
            return
        for n in files:
            got = open(os.path.join(tp.dir, n), newline="").read()
            if got != probe_fmt[n]:
                acc.violation("cli-format-differs", "file %s after `mos format` differs from the library's formatted text" % n, {"files": files, "opts": opts, "got": got, "want": probe_fmt[n]})
                return
    # now with a parse error in one file: nothing may be touched
    bad = dict(files)
    victim = rng.choice(sorted(bad))
    bad[victim] = bad[victim] + "\nlda #\n)\n"
    with TempProject(bad, toml) as tp:
        r = run_mos(["--no-color", "-e", "Short", "format"], tp.dir)
        acc.count("cli.format_runs_with_parse_error")
        for n in bad:
            got = open(os.path.join(tp.dir, n), newline="").read()
            if got != bad[n]:
                acc.violation("cli-format-touched-files-despite-parse-error", "%s was rewritten although %s has a parse error (exit %s)" % (n, victim, r["rc"]),
                              {"files": bad, "opts": opts, "victim": victim})
                return
        if r["rc"] == 0:
            acc.violation("cli-format-exit0-with-parse-error", "mos format exits 0 although %s has a parse error" % victim, {"files": bad})


def shard(idx, n, seed, tier, params):
    if True:
        prop = params["prop"]
        acc = Acc()
        probe = Probe()
        rng = rng_for(seed, prop.lower(), idx)
        t_end = time.time() + params["budget"]
        for i in range(params["programs"] // n):
            if time.time() > t_end:
                acc.count("budget_cut")
                break
            clean = i % 2 == 0
            case = gen_case(rng, acc, clean)
            if case is None:
                continue
            prog, files = case
            acc.count("programs.clean" if clean else "programs.full")
            for k in range(params["configs"]):
                opts = random_options(rng) if k else (random_options(rng) if i % 3 else {})
                if opts and clean and prog.has_else:
                    opts["braces"]["position"] = "same-line"
                if not opts:
                    opts = {"mnemonics": {"casing": "lowercase", "register-casing": "lowercase"}, "braces": {"position": "same-line"},
                            "whitespace": {"indent": 4, "label-margin": 20, "label-alignment": "right", "code-margin": 30}}
                fmt = run_case(acc, probe, prog, files, opts, {prop})
                if prop == "C12" and fmt and k == 0 and i % 40 == 0:
                    cli_format_case(acc, rng, prog, files, opts, fmt)
            if i == 0:
                acc.sample({"input": files["main.asm"][:400], "options": opt_key(opts), "formatted": (fmt or {}).get("main.asm", "")[:400] if fmt else None})
        probe.close()
        return acc
