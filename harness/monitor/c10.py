"""C10 - builds are reproducible: the same project built repeatedly in fresh processes (fresh hash seeds)."""
import hashlib
import os
import time

from ..common import Acc, TempProject, finish, rng_for, run_mos, run_sharded
from ..gen import prog as P
from ..gen import render


def output_files_project(rng):
    """Several banks with their own output files: files that cannot be created (their directory does not exist), and one file named
    by several banks in different spellings. What is written before the build stops, which error is printed and who writes last
    must not depend on a hash order."""
    nb = rng.randrange(2, 6)
    broken = rng.random() < 0.6
    spellings = ["gfx.bin", "../target/gfx.bin", "./gfx.bin", "sub/../gfx.bin"]
    lines = []
    for i in range(nb):
        r = rng.random()
        if broken and r < 0.5:
            fn = "%s/out%d.bin" % (rng.choice(["gfx", "snd", "a/b"]), i)         # target/gfx does not exist
        elif r < 0.75:
            fn = rng.choice(spellings[:2] if not broken else spellings)
        else:
            fn = "out%d.bin" % i
        lines.append('.define bank { name = "b%d" filename = "%s" }' % (i, fn))
    for i in range(nb):
        lines.append('.define segment { name = "s%d" start = $%04x bank = "b%d" }' % (i, 0x1000 * (i + 1), i))
    for i in range(nb):
        lines.append('.segment "s%d" { .byte %s }' % (i, ", ".join(str(rng.randrange(256)) for _ in range(rng.randrange(1, 6)))))
    return "output-files-" + ("uncreatable" if broken else "aliases"), {"main.asm": "\n".join(lines) + "\n"}


def invalid_project(rng):
    """Projects with errors: repeated occurrences of one undefined name, several names, errors spread over imported files."""
    kind = rng.choice(["same-name", "several-names", "multi-file", "mixed-classes", "many-imports", "import-clashes", "hard-errors-in-files",
                       "very-many-undefined", "output-files", "diamond-clash"])
    files = {}
    if kind == "diamond-clash":
        # a file imported with `*` that brings namespaces the importer already has: several clashes, one report
        ns = rng.sample(["math", "gfx", "snd", "io", "util"], rng.randrange(2, 5))
        for x in ns:
            files["%s.asm" % x] = "%s_f: nop\n" % x
        imports = "".join('.import * as %s from "%s.asm"\n' % (x, x) for x in ns)
        lib_order = ns[:]
        rng.shuffle(lib_order)
        files["lib.asm"] = "".join('.import * as %s from "%s.asm"\n' % (x, x) for x in lib_order) + "lib_f: nop\n"
        files["main.asm"] = imports + '.import * from "lib.asm"\nnop\n'
    elif kind == "very-many-undefined":
        # hundreds of distinct (scope, name, place) uses of undefined names: many names, or a macro with undefined names invoked
        # many times (every invocation has a scope of its own)
        if rng.random() < 0.5:
            k = rng.randrange(101, 400)
            files["main.asm"] = "\n".join("%s und%d" % (rng.choice(["lda", "sta", "jmp", ".word"]), i) for i in range(k)) + "\n"
        else:
            k = rng.randrange(51, 150)
            files["main.asm"] = ".macro put(v) {\n    lda first_zz\n    sta second_zz + v\n}\n" + "\n".join("put(%d)" % i for i in range(k)) + "\n"
    elif kind == "output-files":
        return output_files_project(rng)
    elif kind == "same-name":
        k = rng.randrange(5, 13)
        files["main.asm"] = "\n".join(rng.choice(["lda foo", "sta foo,x", ".word foo", "jmp foo", ".byte <foo", "cmp #>foo"]) for _ in range(k)) + "\n"
    elif kind == "several-names":
        names = ["u%d" % i for i in range(rng.randrange(3, 7))]
        files["main.asm"] = "\n".join("lda %s" % rng.choice(names) for _ in range(rng.randrange(6, 14))) + "\n"
    elif kind == "multi-file":
        n = rng.randrange(3, 5)
        main = []
        for i in range(n):
            main.append('.import * from "f%d.asm"' % i)
            files["f%d.asm" % i] = "l%d: lda missing%d\n lda foo\n sta foo\n" % (i, i)
        main.append("lda foo\njmp foo")
        files["main.asm"] = "\n".join(main) + "\n"
    elif kind == "mixed-classes":
        files["main.asm"] = ("lda #300\n.const c = 1\n.const c = 2\nlda foo\nlda ($1234),y\nbne * + 500\nnomacro(1)\n.segment \"nope\"\nlda foo\n"
                             "x: nop\nx: brk\nsta foo\n")
    elif kind == "import-clashes":
        # two files define several of the same names (in different orders); the second `*` import cannot import any of them
        names = ["n%d" % i for i in range(rng.randrange(2, 7))]
        order = names[:]
        rng.shuffle(order)
        files["f0.asm"] = "".join("%s: nop\n" % n for n in names)
        files["f1.asm"] = "".join(rng.choice(["%s: nop\n", ".const %s = 1\n"]) % n for n in order)
        imp = rng.choice(['.import * from "f0.asm"\n.import * from "f1.asm"\n', '.import * as a from "f0.asm"\n.import * as a from "f1.asm"\n',
                          '.import %s from "f0.asm"\n.import * from "f1.asm"\n' % ", ".join(names)])
        files["main.asm"] = imp + "nop\n"
    elif kind == "hard-errors-in-files":
        # errors of different classes in several imported files and in the main file
        n = rng.randrange(2, 5)
        main = ['.import * from "f%d.asm"' % i for i in range(n)]
        for i in range(n):
            files["f%d.asm" % i] = "e%d: %s\n nop\n" % (i, rng.choice(["lda #300", "stx $10,x", "bne * + 400", ".const q%d = 1\n.const q%d = 2" % (i, i), "nomacro%d(1)" % i, "lda undefined%d" % i]))
        main.append(rng.choice(["lda #999", "inc #1", "lda gone", "nop"]))
        files["main.asm"] = "\n".join(main) + "\n"
    else:
        n = rng.randrange(3, 6)
        main = ['.import * from "f%d.asm"' % i for i in range(n)]
        for i in range(n):
            files["f%d.asm" % i] = "g%d: { nop\n { h%d: lda bad }\n }\n" % (i, i) if rng.random() < 0.6 else "g%d: nop\n" % i
        main.append("lda bad\nsta bad")
        files["main.asm"] = "\n".join(main) + "\n"
    return kind, files


def multi_segment_project(rng):
    """One source line that emits into several segments (a file imported into different segments, several segment blocks on
    one line): what a listing shows for it must not depend on a hash order."""
    nseg = rng.randrange(2, 5)
    names = ["s%d" % i for i in range(nseg)]
    main = ['.define segment { name = "%s" start = $%04x }' % (n_, 0x1000 * (i + 1)) for i, n_ in enumerate(names)]
    for i, n_ in enumerate(names):
        main.append('.segment "%s" { .import * as i%d from "shared.asm" }' % (n_, i))
    order = names[:]
    rng.shuffle(order)
    main.append(" ".join('.segment "%s" { %s }' % (n_, rng.choice(["nop", "lda #%d" % rng.randrange(256), ".byte %d, %d" % (rng.randrange(256), rng.randrange(256)), "rts"])) for n_ in order))
    main.append('.segment "%s" { jsr i0.x }' % names[0])
    shared = "x: lda #%d\n    sta $d0%02x\n    .byte %s\n    rts\n" % (rng.randrange(256), rng.randrange(64), ", ".join(str(rng.randrange(256)) for _ in range(rng.randrange(1, 12))))
    return "valid-multi-segment-lines", {"main.asm": "\n".join(main) + "\n", "shared.asm": shared}


def same_stem_project(rng):
    """Source files that share a file stem (same name in two directories, or names that differ only in the extension): what is
    written for them (listings are named after the stem) must not depend on a hash order."""
    n = rng.randrange(2, 5)
    # (also directories whose flattened names coincide: lib/io/foo.asm and lib_io/foo.asm)
    dirs = rng.sample(["a", "b", "lib", "gfx", "snd/sub", "lib/io", "lib_io", "snd_sub"], n) if rng.random() < 0.6 else None
    names = ["%s/foo.asm" % d for d in dirs] if dirs else rng.sample(["foo.asm", "foo.inc", "foo.s", "foo.a65", "foo.mos"], n)
    files = {}
    main = []
    for i, name in enumerate(names):
        files[name] = "f%d: lda #%d\n    %s\n" % (i, rng.randrange(256), rng.choice(["rts", "nop", ".byte %d" % rng.randrange(256), "sta $d020"]))
        main.append('.import * from "%s"' % name)
    rng.shuffle(main)
    files["main.asm"] = "\n".join(main) + "\nnop\n"
    return "valid-same-stem-" + ("directories" if dirs else "extensions"), files


def valid_project(rng):
    r = rng.random()
    if r < 0.25:
        return multi_segment_project(rng)
    if r < 0.4:
        return same_stem_project(rng)
    for _ in range(20):
        prog = P.generate(rng, {"p_import": 1.0, "p_macro": 0.7, "p_segments": 0.3, "max_bytes": 300, "top_stmts": 10})
        if prog.base_pc != 0x2000 and not prog.has_segments:
            continue
        try:
            files, _ = render.render_program(prog)
        except render.SpellError:
            continue
        return "valid-" + "+".join(sorted(prog.features)), files
    return "valid-trivial", {"main.asm": "nop\n"}


def snapshot(tp, r):
    out = {"exit": str(r["rc"]), "stdout": r["out"]}
    tdir = os.path.join(tp.dir, "target")
    for base, _, fns in sorted(os.walk(tdir)):
        for fn in sorted(fns):
            full = os.path.join(base, fn)
            out["file:" + os.path.relpath(full, tdir)] = open(full, "rb").read().decode("latin1")
    return out


def artefact_kind(name):
    if name.startswith("file:"):
        ext = name.rsplit(".", 1)[-1]
        return {"lst": "listing", "vs": "symbols", "prg": "binary", "bin": "binary"}.get(ext, "file")
    return name


def describe(name, a, b):
    la, lb = a.split("\n"), b.split("\n")
    if sorted(la) == sorted(lb):
        return "same lines in a different order"
    import re
    norm = lambda t: re.sub(r"\$scope_\d+", "$scope_N", t)
    if sorted(map(norm, la)) == sorted(map(norm, lb)):
        return "anonymous scope numbers differ"
    return "content differs"


def shard(idx, n, seed, tier, params):
    acc = Acc()
    rng = rng_for(seed, "c10", idx)
    t_end = time.time() + params["budget"]
    toml = '[build]\nlisting = true\nsymbols = ["vice"]\n'
    for i in range(params["projects"] // n):
        if time.time() > t_end:
            acc.count("budget_cut")
            break
        kind, files = invalid_project(rng) if i % 2 else valid_project(rng)
        with TempProject(files, toml) as tp:
            snaps = []
            for run in range(params["runs"]):
                # every run is a fresh process: std's RandomState is seeded per process
                import shutil
                shutil.rmtree(os.path.join(tp.dir, "target"), ignore_errors=True)
                r = run_mos(["--no-color", "-e", "Short", "build"], tp.dir)
                if r["timeout"] or r["rc"] in (96, 97, 101) or (r["rc"] or 0) < 0:
                    acc.inconc("abnormal exit %s" % r["rc"])
                    snaps = None
                    break
                snaps.append(snapshot(tp, r))
                acc.evaluations += 1
        if not snaps:
            continue
        acc.nontriv(tuple(sorted(files.items())))
        acc.count("projects." + ("invalid" if i % 2 else "valid"))
        acc.cover("project_kinds", kind)
        first = snaps[0]
        for name in sorted(set().union(*[set(s) for s in snaps])):
            vals = [s.get(name) for s in snaps]
            distinct = len(set(vals))
            acc.count("artefacts.%s.compared" % artefact_kind(name))
            if distinct > 1:
                other = next(v for v in vals if v != vals[0])
                how = describe(name, vals[0] or "", other or "") if vals[0] is not None and other is not None else "present in some runs only"
                acc.violation("nondeterministic|%s|%s|%s" % (artefact_kind(name), how, "errors" if first["exit"] != "0" else "success"),
                              "%s takes %d distinct values over %d runs (%s)" % (name, distinct, len(vals), how),
                              {"files": files, "artefact": name, "value_a": (vals[0] or "")[:1500], "value_b": (other or "")[:1500], "project_kind": kind})
        if i < 2:
            acc.sample({"kind": kind, "files": {k: v[:200] for k, v in files.items()}, "stdout": first["stdout"][:300]})
    return acc


def main(tier, seed):
    t0 = time.time()
    params = {"projects": 640 if tier == "quick" else 6000, "runs": 8 if tier == "quick" else 30, "budget": 100 if tier == "quick" else 1500}
    acc = run_sharded(shard, seed, tier, params)
    return finish(
        "C10", tier, seed, acc, t0,
        rule="projects: half valid multi-file ProgGen projects (imports, macros, anonymous scopes; listing and VICE symbols enabled), half "
             "invalid (5-12 uses of one undefined name, several undefined names, errors spread over 3-4 imported files, several "
             "imports per file, mixed error classes); each is built N times by fresh `mos build` processes (fresh hash seeds) and "
             "exit status, stdout and every file of the target directory must be byte-identical over all runs. With k same-name "
             "occurrences a random order survives N runs with probability (1/k!)^(N-1). Non-trivial = distinct project.",
        assumptions=["relies on std's per-process RandomState seeding (not controllable); detection is probabilistic with the stated bound"])
