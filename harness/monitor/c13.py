"""C13 - formatting is idempotent."""
import time

from ..common import finish, run_sharded
from . import fmtcommon

shard = fmtcommon.shard


def main(tier, seed):
    t0 = time.time()
    params = {"programs": 10000 if tier == "quick" else 150000, "configs": 3, "prop": "C13", "budget": 80 if tier == "quick" else 1200}
    acc = run_sharded(shard, seed, tier, params)
    return finish(
        "C13", tier, seed, acc, t0,
        rule="ProgGen programs over the statement grammar rendered by the hostile layout (line/block/nested/multi-line comments at every "
             "boundary where trivia is accepted, blank lines, CRLF) x 3 formatter configurations (mnemonic/register casing, brace position, "
             "indent 0-8, label margin 0-30 left/right, code margin 0-40); format(format(p)) must equal format(p) for every file. "
             "Non-trivial = distinct (program, configuration) whose first formatting changed the text.",
        assumptions=["the formatter is driven through the library entry point `format` with the same options the CLI reads from mos.toml"])
