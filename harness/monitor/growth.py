"""Growth monitor (part of C06): does the work the real parser / code generator / formatter does grow polynomially with the
nesting depth of the input?

The measure is a logical one - the number of machine instructions executed by `mosprobe` on the input, counted by
valgrind's callgrind (deterministic for a given binary and input, independent of machine load) - not a timer. For every
input family f(n) the instruction count I(n) is taken at four depths n1 < n2 < n3 < n4 with equal spacing; a family whose
increments I(n2)-I(n1), I(n3)-I(n2), I(n4)-I(n3) grow by a factor >= RATIO twice in a row is super-polynomial in this range
(for a polynomial of degree <= 3 and these depths the factor stays below 2) and is reported: a few dozen more levels then
keep the assembler or the language server busy forever. A run that the generous watchdog ends is inconclusive unless the
counts that did complete already show the growth.
"""
import json
import os
import re
import subprocess
import tempfile

from ..common import Acc, probe_bin

SIZES = (4, 7, 10, 13)
RATIO = 4.0
MIN_INCREMENT = 200_000       # increments smaller than this are measurement noise of the constant part
OPS = ["parse", "display", "codegen", "greedy", "format"]


def _chain(n):
    src = ".macro m0() { nop }\n"
    for i in range(1, n + 1):
        src += ".macro m%d() { m%d() }\n" % (i, i - 1)
    return src + "m%d()" % n


FAMILIES = {
    "parens-balanced": lambda n: "lda #" + "(" * n + "1" + ")" * n,
    "parens-unbalanced": lambda n: "lda " + "(" * n + "1",
    "parens-unbalanced-close": lambda n: "lda #1" + ")" * n,
    "parens-in-data": lambda n: ".byte " + "(" * n + "1",
    "call-balanced": lambda n: ".byte " + "m(" * n + "1" + ")" * n,
    "call-unbalanced": lambda n: ".byte " + "m(" * n + "1",
    "call-two-args": lambda n: ".byte " + "m(1, " * n + "1" + ")" * n,
    "macro-invocation-nested": lambda n: "m(" * n + "1" + ")" * n,
    "macro-invocation-unbalanced": lambda n: "m(" * n + "1",
    "indirect-operand": lambda n: "lda (" + "(" * n + "1" + ")" * n + "),y",
    "indirect-unbalanced": lambda n: "jmp (" + "(" * n + "1",
    "unary-minus": lambda n: "lda #" + "-" * n + "1",
    "unary-not": lambda n: "lda #" + "!" * n + "1",
    "not-minus-parens": lambda n: "lda #" + "!-(" * n + "1" + ")" * n,
    "modifier-parens": lambda n: "lda #" + "<(" * n + "1" + ")" * n,
    "binary-chain": lambda n: "lda #" + "1+" * (8 * n) + "1",
    "paren-plus": lambda n: "lda #" + "(1+" * n + "1" + ")" * n,
    "paren-times-unbalanced": lambda n: ".word " + "(2*" * n + "1",
    "braces-balanced": lambda n: "{" * n + "nop" + "}" * n,
    "braces-unbalanced": lambda n: "{" * n + "nop",
    "labelled-blocks": lambda n: "a: {" * n + "nop" + "}" * n,
    "labelled-blocks-unbalanced": lambda n: "a: {" * n + "nop",
    "if-nest": lambda n: ".if 1 {" * n + "nop" + "}" * n,
    "if-nest-unbalanced": lambda n: ".if 1 {" * n + "nop",
    "if-else-chain": lambda n: ".if 0 { nop } else { " * n + "nop" + " }" * n,
    "if-condition-parens": lambda n: ".if " + "(" * n + "1" + ")" * n + " { nop }",
    "loop-nest": lambda n: ".loop 1 {" * n + "nop" + "}" * n,
    "loop-nest-unbalanced": lambda n: ".loop 1 {" * n + "nop",
    "macro-definition-nest": lambda n: "".join(".macro m%d() {" % i for i in range(n)) + "nop" + "}" * n,
    "macro-chain-single": _chain,
    "segment-blocks": lambda n: '.segment "default" {' * n + "nop" + "}" * n,
    "string-interpolation": lambda n: '.const a = 1\n.text "' + "{a}" * (4 * n) + '"',
    "string-unterminated-interpolation": lambda n: '.text "' + "{a" * n,
    "comment-nest": lambda n: "/*" * n + " x " + "*/" * n + "\nnop",
    "comment-unbalanced": lambda n: "nop\n" + "/*" * n + " x",
    "dotted-path": lambda n: "lda " + "a." * n + "b",
    "super-path": lambda n: "a: { lda " + "super." * n + "a }",
    "import-block-nest": lambda n: '.import * from "b.asm" {' * n + "}" * n,
    "define-nest": lambda n: ".define segment {" * n + ' name = "a" ' + "}" * n,
    "test-nest": lambda n: '.test "t" {' * n + "brk" + "}" * n,
    "error-tokens": lambda n: "nop\n" + ") " * (8 * n) + "\nnop",
    "mixed-brackets": lambda n: "lda #" + "(m(" * n + "1",
    "label-chain": lambda n: "a: " * (8 * n) + "nop",
}


def measure(src, timeout=120):
    """Instruction count of one probe process handling the request, or None (watchdog / valgrind failure)."""
    req = json.dumps({"files": {"main.asm": src, "b.asm": "x: nop"}, "ops": OPS, "opts": {"pass_cap": 50, "work_cap": 2_000_000}}) + "\n"
    with tempfile.TemporaryDirectory(prefix="mosverif-cg-") as d:
        out = os.path.join(d, "cg.out")
        try:
            p = subprocess.run(["valgrind", "--tool=callgrind", "--callgrind-out-file=" + out, probe_bin()], input=req.encode(), stdout=subprocess.PIPE,
                               stderr=subprocess.PIPE, timeout=timeout)
        except subprocess.TimeoutExpired:
            return None
    m = re.search(rb"Collected : (\d+)", p.stderr)
    if not m or not p.stdout.strip():
        return None
    return int(m.group(1))


def memcheck(src, timeout=180):
    """valgrind memcheck on one probe process handling the request: ("clean" | "errors" | "inconclusive", detail)."""
    req = json.dumps({"files": {"main.asm": src, "b.asm": "x: nop"}, "ops": OPS + ["listing", "merge", "vice"], "opts": {"pass_cap": 50, "work_cap": 2_000_000}}) + "\n"
    try:
        p = subprocess.run(["valgrind", "--tool=memcheck", "--error-exitcode=99", "--errors-for-leak-kinds=none", "--leak-check=no", "-q", probe_bin()],
                           input=req.encode(), stdout=subprocess.PIPE, stderr=subprocess.PIPE, timeout=timeout)
    except subprocess.TimeoutExpired:
        return "inconclusive", "watchdog"
    if p.returncode == 99:
        return "errors", p.stderr.decode("utf8", "replace")[-1500:]
    if p.returncode != 0 or not p.stdout.strip():
        return "inconclusive", "exit %s: %s" % (p.returncode, p.stderr.decode("utf8", "replace")[-200:])
    return "clean", ""


def judge(counts):
    """counts: instruction counts at SIZES (None = no measurement). -> ("ok"|"superpolynomial"|"inconclusive", increments)"""
    incs = []
    for a, b in zip(counts, counts[1:]):
        incs.append(None if a is None or b is None else b - a)
    ratios = []
    for a, b in zip(incs, incs[1:]):
        if a is None or b is None or b < MIN_INCREMENT:
            ratios.append(None)
        else:
            ratios.append(b / max(a, MIN_INCREMENT / RATIO))
    for r1, r2 in zip(ratios, ratios[1:]):
        if r1 is not None and r2 is not None and r1 >= RATIO and r2 >= RATIO:
            return "superpolynomial", incs
    if any(c is None for c in counts):
        return "inconclusive", incs
    return "ok", incs


def run_families(acc, names):
    for name in names:
        f = FAMILIES[name]
        counts = []
        for n in SIZES:
            c = measure(f(n))
            counts.append(c)
            if c is None:
                counts.extend([None] * (len(SIZES) - len(counts)))
                break
        verdict, incs = judge(counts)
        acc.evaluations += 1
        acc.count("growth." + verdict)
        acc.cover("growth_families", name)
        if verdict == "superpolynomial":
            acc.violation("superpolynomial-work|%s" % name,
                          "instructions executed for %s at depth %s: %s - the increments %s multiply by more than %g from one step to the next" % (
                              name, list(SIZES), counts, incs, RATIO),
                          {"family": name, "sizes": list(SIZES), "instructions": counts, "inputs": {str(n): f(n) for n in SIZES}})
        elif verdict == "inconclusive":
            acc.inconc("growth of %s: no instruction count at every depth (%s)" % (name, counts))
        else:
            acc.nontriv("growth", name)
        if len(acc.samples) < 3:
            acc.sample({"growth_family": name, "depths": list(SIZES), "instructions": counts})
        # sanitizer slice: the same family (depth 7) through every stage under valgrind memcheck - invalid reads/writes and
        # uses of uninitialised values in the code under test or its dependencies (the repository itself has no `unsafe`)
        verdict, detail = memcheck(f(7))
        acc.evaluations += 1
        acc.count("memcheck." + verdict)
        if verdict == "errors":
            first = next((l for l in detail.splitlines() if "==" in l and ("Invalid" in l or "uninitialised" in l or "Conditional" in l)), detail[:120])
            acc.violation("memcheck|%s" % re.sub(r"==\d+==\s*", "", first)[:60], "valgrind memcheck reports errors for %s: %s" % (name, detail[-600:]),
                          {"family": name, "input": f(7), "report": detail})
        elif verdict == "inconclusive":
            acc.inconc("memcheck of %s: %s" % (name, detail))
    return acc
