"""C14 - the language server depends only on the current buffers and survives any request."""
import json
import os
import re
import time

from ..common import Acc, finish, rng_for, run_sharded
from ..client.lsp import uri_of
from ..gen import prog as P
from ..gen import render
from ..oracle import lexer
from . import lspcommon as L

POS_METHODS = ["textDocument/definition", "textDocument/references", "textDocument/documentHighlight", "textDocument/hover",
               "textDocument/completion", "textDocument/prepareRename", "textDocument/rename", "textDocument/onTypeFormatting"]
DOC_METHODS = ["textDocument/semanticTokens/full", "textDocument/documentSymbol", "textDocument/codeLens", "textDocument/formatting"]
KNOBS = {"p_import": 0.0, "p_macro": 0.6, "max_bytes": 120, "top_stmts": 6, "p_segments": 0.1}
NONASCII_LINES = ["// ünï 𝄞 cödé", "nop // é€", "/* 𝄞𝄞 */ nop", '.text "é€"']


def small_program(rng, with_test=False):
    for _ in range(10):
        prog = P.generate(rng, KNOBS)
        try:
            files, _ = render.render_program(prog)
        except render.SpellError:
            continue
        text = files["main.asm"]
        if rng.random() < 0.4:
            lines = text.split("\n")
            lines.insert(rng.randrange(len(lines)), rng.choice(NONASCII_LINES))
            text = "\n".join(lines)
        if rng.random() < 0.25 and ".define segment" not in text:
            # a segment block whose name is given by an identifier that means something else at the root
            text += '.const segname = "default"\nshadow: {\n    .const segname = "default"\n    .segment segname {\n        nop\n    }\n}\n.byte segname == "default"\n'
        if rng.random() < 0.2 and ".define segment" not in text:
            # a segment block inside a segment block (outline requests walk into both)
            text += '.segment "default" {\n    nop\n    .segment "default" {\n        nested_zz: nop\n    }\n}\n'
        if with_test:
            text += '.test "t" {\n    lda #1\n    .assert cpu.a == 1\n    brk\n}\n'
        return text
    return "nop\n"


def lib_program(rng, k):
    # (sometimes the definitions stand far down in the file, further than the importing file is long)
    pad = "// library %d\n" % k * rng.choice([0, 0, 0, 12, 40])
    return pad + "lib%d_a: nop\n.const lib%d_c = %d\nlib%d_b: {\n    lda #<lib%d_a\n}\n%s" % (k, k, rng.randrange(1, 200), k, k, "lda #\n" if rng.random() < 0.2 else "")


def lib_uses(rng, ks):
    """Statements of the importing file that use what the libraries define."""
    out = []
    for k in ks:
        for t in rng.sample(["lda lib%d_a", "jsr lib%d_b", "ldx #lib%d_c", ".word lib%d_a, lib%d_b"], rng.randrange(0, 3)):
            out.append(t.replace("%d", str(k)))
    return "".join(x + "\n" for x in out)


def params_for(method, uri, line, ch):
    p = {"textDocument": {"uri": uri}, "position": {"line": line, "character": ch}}
    if method == "textDocument/references":
        p["context"] = {"includeDeclaration": True}
    elif method == "textDocument/rename":
        p["newName"] = "renamed_by_history"
    elif method == "textDocument/onTypeFormatting":
        p["ch"] = "}"
        p["options"] = {"tabSize": 4, "insertSpaces": True}
    return p


def doc_params(method, uri):
    p = {"textDocument": {"uri": uri}}
    if method == "textDocument/formatting":
        p["options"] = {"tabSize": 4, "insertSpaces": True}
    return p


def positions(rng, text):
    """(class, line, character) candidates: identifier starts/middles, ends of lines, out-of-range, inside multi-byte characters."""
    lines = text.split("\n")
    out = []
    for ln, l in enumerate(lines):
        for m in re.finditer(r"[A-Za-z_][A-Za-z0-9_]*", l):
            out.append(("identifier", ln, rng.randrange(m.start(), m.end() + 1)))
        out.append(("end-of-line", ln, len(l)))
        out.append(("past-end-of-line", ln, len(l) + rng.randrange(1, 40)))
        for i, ch in enumerate(l):
            if ch == ".":
                out.append(("after-dot", ln, i + 1))
            if ord(ch) > 127:
                out.append(("at-non-ascii", ln, i))
                out.append(("after-non-ascii", ln, i + 1))
                b = len(l[:i].encode("utf8"))
                out.append(("byte-offset-inside-multibyte", ln, b + 1))
    out.append(("past-end-of-file", len(lines) + rng.randrange(0, 5), rng.randrange(0, 10)))
    out.append(("huge", 2 ** 31 - 1, 2 ** 31 - 1))
    out.append(("origin", 0, 0))
    return out


def battery(pr, open_bufs, disk, rng_seed):
    """Answers of a server to a fixed set of queries about the current buffers (deterministic in rng_seed)."""
    import random
    rng = random.Random(rng_seed)
    out = {}
    texts = dict(disk)
    texts.update(open_bufs)
    for name in sorted(texts):
        uri = pr.uri(name)
        toks = [(k, t) for k, t in lexer.tokens(texts[name])]
        pos = [p for p in positions(rng, texts[name]) if p[0] == "identifier"]
        rng.shuffle(pos)
        # (the first occurrence of a name that another statement uses as a segment name expression is always among them)
        k0 = texts[name].find("segname")
        if k0 >= 0:
            pos.insert(0, ("identifier", texts[name].count("\n", 0, k0), k0 - (texts[name].rfind("\n", 0, k0) + 1)))
        # the position queries come first and the outline requests of the file behind them: the second round below then asks the
        # position queries again AFTER the outlines have been served
        for cls, ln, ch in pos[:10]:
            for m in POS_METHODS:
                if m in ("textDocument/rename",):
                    continue   # a rename request changes the server's state (that is one of the things under test): not part of the battery
                out["%s %s:%d:%d" % (m, name, ln, ch)] = r_ = pr.srv.request(m, params_for(m, uri, ln, ch))
                if isinstance(r_, dict) and (r_.get("blocked") or "dead" in r_):
                    out["__unresponsive__"] = "%s %s:%d:%d" % (m, name, ln, ch)
                    out["__again__"] = {}
                    return out           # a server that is blocked or gone answers nothing any more: every further question costs a watchdog
        for m in DOC_METHODS:
            out["%s %s" % (m, name)] = r_ = pr.srv.request(m, doc_params(m, uri))
            if isinstance(r_, dict) and (r_.get("blocked") or "dead" in r_):
                out["__unresponsive__"] = "%s %s" % (m, name)
                out["__again__"] = {}
                return out
    out["workspace/symbol"] = pr.srv.request("workspace/symbol", {"query": ""})
    # the same questions once more, now that every kind of request has been served: reading must not change the answers
    again = {}
    for name in sorted(texts):
        uri = pr.uri(name)
        for m in DOC_METHODS:
            again["%s %s" % (m, name)] = pr.srv.request(m, doc_params(m, uri))
    for key in sorted(k for k in out if ":" in k.split(" ")[-1] and k.split(" ")[0] in ("textDocument/references", "textDocument/definition", "textDocument/documentHighlight")):
        m, rest = key.split(" ", 1)
        name, ln, ch = rest.rsplit(":", 2)
        again[key] = pr.srv.request(m, params_for(m, pr.uri(name), int(ln), int(ch)))
    out["__again__"] = again
    return out


def normalise(v):
    """Set-valued answers are compared as sorted multisets (hash-order noise is not history dependence)."""
    if isinstance(v, dict):
        if "dead" in v or "timeout" in v:
            return "<no answer>"
        v = v.get("result", v.get("error"))
    if isinstance(v, list):
        return sorted((json.dumps(normalise_item(x), sort_keys=True) for x in v))
    if isinstance(v, dict):
        return json.dumps(normalise_item(v), sort_keys=True)
    return v


def normalise_item(x):
    if isinstance(x, dict):
        if "changes" in x and isinstance(x["changes"], dict):
            return {"changes": {k: sorted(json.dumps(e, sort_keys=True) for e in es) for k, es in x["changes"].items()}}
        if "items" in x and isinstance(x["items"], list):
            return {"items": sorted(json.dumps(i, sort_keys=True) for i in x["items"])}
        return {k: normalise_item(v) for k, v in x.items()}
    if isinstance(x, list):
        return [normalise_item(i) for i in x]
    return x


def check_wellformed(acc, method, resp, texts, pr, w):
    """Every returned range lies inside its document; semantic tokens are sorted, non-overlapping, non-empty."""
    res = resp.get("result") if isinstance(resp, dict) else None
    if res is None:
        return

    def line_len(name, ln):
        t = texts.get(name)
        if t is None:
            return None
        lines = t.split("\n")
        if ln >= len(lines):
            return -1
        return sum(2 if ord(c) > 0xFFFF else 1 for c in lines[ln].rstrip("\r"))

    def ranges(x, doc):
        if isinstance(x, dict):
            d = doc
            for key in ("uri", "targetUri"):
                if key in x and isinstance(x[key], str):
                    d = pr.name_of_uri(x[key])
            if "location" in x and isinstance(x["location"], dict) and "uri" in x["location"]:
                d2 = pr.name_of_uri(x["location"]["uri"])
                yield from ranges(x["location"], d2)
            if "changes" in x and isinstance(x["changes"], dict):
                for uri, es in x["changes"].items():
                    yield from ranges(es, pr.name_of_uri(uri))
            for k, v in x.items():
                if k in ("range", "selectionRange", "targetRange", "targetSelectionRange", "originSelectionRange") and isinstance(v, dict) and "start" in v:
                    yield (d if k != "originSelectionRange" else doc, v)
                elif k not in ("location", "changes"):
                    yield from ranges(v, d)
        elif isinstance(x, list):
            for i in x:
                yield from ranges(i, doc)
    doc = w.get("doc")
    for d, rg in ranges(res, doc):
        for p in (rg["start"], rg["end"]):
            ll = line_len(d, p["line"])
            if ll is None:
                continue
            if ll == -1 and not (p["character"] == 0):
                acc.violation("range-outside-document|%s|line" % method, "%s returns a position %r beyond the last line of %s" % (method, p, d), w)
                return
            if ll >= 0 and p["character"] > ll:
                acc.violation("range-outside-document|%s|column" % method, "%s returns a position %r beyond the end of its line (%d) in %s" % (method, p, ll, d), w)
                return
        if (rg["end"]["line"], rg["end"]["character"]) < (rg["start"]["line"], rg["start"]["character"]):
            acc.violation("range-inverted|%s" % method, "%r" % rg, w)
            return
    if method == "textDocument/semanticTokens/full" and isinstance(res, dict):
        data = res.get("data", [])
        line = col = 0
        prev_end = (0, 0)
        for i in range(0, len(data) - 4, 5):
            dl, dc, ln_, _, _ = data[i:i + 5]
            line += dl
            col = col + dc if dl == 0 else dc
            if ln_ == 0:
                acc.violation("semantic-token|zero-length", "token %d at %d:%d has length 0" % (i // 5, line, col), w)
                return
            if (line, col) < prev_end:
                acc.violation("semantic-token|overlap-or-unsorted", "token %d at %d:%d starts before the previous one ends %r" % (i // 5, line, col, prev_end), w)
                return
            prev_end = (line, col + ln_)
            ll = line_len(doc, line)
            if ll is not None and (ll == -1 or col + ln_ > ll):
                acc.violation("semantic-token|outside-document", "token %d at %d:%d+%d lies outside line of length %s" % (i // 5, line, col, ln_, ll), w)
                return
        acc.count("semantic_tokens_checked", len(data) // 5)


def ask_key(srv, pr, key):
    """Re-asks one battery query (or reads the last published diagnostics of a file)."""
    method, rest = key.split(" ", 1)
    if method == "publishDiagnostics":
        srv.barrier()
        return normalise({pr.name_of_uri(u): d for u, d in srv.diagnostics.items()}.get(rest, []))
    if method == "workspace/symbol":
        return normalise(srv.request(method, {"query": ""}))
    if ":" in rest:
        name, ln, ch = rest.rsplit(":", 2)
        return normalise(srv.request(method, params_for(method, pr.uri(name), int(ln), int(ch))))
    return normalise(srv.request(method, doc_params(method, pr.uri(rest))))


def escalate(pr, key, open_bufs, history_log, fresh_answer, edited_answer):
    from ..client.lsp import LspServer
    servers = []
    try:
        fresh_answers, edited_answers = [fresh_answer], [edited_answer]
        for _ in range(3):
            f = LspServer(pr.dir)
            servers.append(f)
            f.initialize()
            for name in sorted(open_bufs):
                f.did_open(pr.path(name), open_bufs[name])
            f.barrier()
            fresh_answers.append(ask_key(f, pr, key))
        for _ in range(2):
            r = LspServer(pr.dir)
            servers.append(r)
            for kind, method, params in history_log:
                if kind == "notify":
                    r.notify(method, params)
                else:
                    r.request(method, params)
            r.barrier()
            edited_answers.append(ask_key(r, pr, key))
        fa = {json.dumps(x, sort_keys=True) for x in fresh_answers}
        ea = {json.dumps(x, sort_keys=True) for x in edited_answers}
        if len(fa) == 1 and len(ea) == 1 and fa != ea:
            return "history"
        if len(fa) > 1:
            return "nondeterministic"            # identical fresh servers disagree with each other
        return "nondeterministic-after-history"  # replays of one and the same history disagree with each other
    finally:
        for s_ in servers:
            s_.kill()


def run_history(acc, rng, hist_seed):
    import random
    nlib = rng.choice([0, 1, 1, 2])
    # (file names that need escaping in a URI: a blank, a non-ASCII letter, a '#')
    libname = {k: rng.choice(["lib%d.asm", "lib%d.asm", "lib %d.asm", "lib\u00e4%d.asm", "lib#%d.asm"]) % k for k in range(3)}
    disk = {"main.asm": "\n".join('.import * from "%s"' % libname[k] for k in range(nlib)) + ("\n" if nlib else "") +
            (small_program(rng) if rng.random() < 0.8 else "nop\n") + lib_uses(rng, range(nlib))}
    for k in range(nlib):
        disk[libname[k]] = lib_program(rng, k)
    disk["orphan.asm"] = "orphan: nop\n"       # a file of the directory that is not part of the project
    disk["sub/util.asm"] = "util: nop\n"      # a subdirectory: its name (and the empty name) is what a half-typed import path says
    pr = L.Project(disk, open_files=())
    open_bufs = {}
    flags = set()
    version = 1
    events = []
    try:
        def send_open(name, text):
            nonlocal version
            version += 1
            open_bufs[name] = text
            pr.srv.did_open(pr.path(name), text)
            events.append(("didOpen", name, len(text)))

        def send_change(name, text):
            nonlocal version
            version += 1
            open_bufs[name] = text
            r_ = rng.random()
            if r_ < 0.1:
                # several full-text changes in one notification: the last one is the document
                from ..client.lsp import uri_of
                pr.srv.notify("textDocument/didChange", {"textDocument": {"uri": uri_of(pr.path(name)), "version": version},
                                                         "contentChanges": [{"text": rng.choice(["nop\n", "", text[:len(text) // 2], "lda #\n)"])}, {"text": text}]})
                events.append(("didChange[2 changes]", name, len(text)))
                return
            if r_ < 0.13:
                # a notification without any change leaves the document as it is
                from ..client.lsp import uri_of
                pr.srv.notify("textDocument/didChange", {"textDocument": {"uri": uri_of(pr.path(name)), "version": version}, "contentChanges": []})
                events.append(("didChange[0 changes]", name, 0))
                version += 1
            pr.srv.did_change(pr.path(name), text, version)
            events.append(("didChange", name, len(text)))
        send_open("main.asm", disk["main.asm"])
        nev = rng.randrange(8, 30)
        for e in range(nev):
            r = rng.random()
            names = sorted(disk)
            if r < 0.25:
                # typing burst: single characters inserted/deleted, passing through broken states
                name = rng.choice(sorted(open_bufs)) if open_bufs else "main.asm"
                text = open_bufs.get(name, disk[name])
                for _ in range(rng.randrange(1, 6)):
                    i = rng.randrange(len(text) + 1)
                    if rng.random() < 0.5 and text:
                        text = text[:i] + text[i + 1:]
                    else:
                        # (single characters, now and then a scope prefix directly behind a multi-byte character)
                        text = text[:i] + (rng.choice(["→x.", "é.", "𝄞lib0_a.", "→segments.", "€a.b."]) if rng.random() < 0.1 else rng.choice("abc {}()\"#$.,:\n \t/*é𝄞")) + text[i:]
                    if name in open_bufs:
                        send_change(name, text)
                    else:
                        send_open(name, text)
            elif r < 0.29 and "main.asm" in open_bufs and [n_ for n_ in names if n_ not in open_bufs and n_ != "main.asm"]:
                # a file that is not open in the editor changes on disk (another program, a workspace edit applied to a closed
                # file); the next change of an open buffer makes the server look again
                name = rng.choice([n_ for n_ in names if n_ not in open_bufs and n_ != "main.asm"])
                disk[name] = lib_program(rng, rng.randrange(3)) if name.startswith("lib") else "orphan2: nop\n"
                with open(pr.path(name), "w", newline="") as fh:
                    fh.write(disk[name])
                events.append(("disk-change", name, len(disk[name])))
                flags.add("disk-change")
                if "main.asm" in open_bufs:
                    send_change("main.asm", open_bufs["main.asm"])
            elif r < 0.4:
                # whole-text replacement (sometimes dropping or adding imports)
                text = small_program(rng)
                keep = [k for k in range(nlib) if rng.random() < 0.6]
                if len(keep) < nlib:
                    flags.add("import-removed")
                text = "\n".join('.import * from "%s"' % libname[k] for k in keep) + ("\n" if keep else "") + text + lib_uses(rng, keep)
                if rng.random() < 0.25:
                    # an import path as it looks while it is being typed: empty, a directory, a directory with a slash
                    flags.add("import-of-directory")
                    text = '.import * from "%s"\n' % rng.choice(["", "sub", "sub/", "sub/util.asm", ".", "sub/util"]) + text
                if "main.asm" in open_bufs:
                    send_change("main.asm", text)
                else:
                    send_open("main.asm", text)
            elif r < 0.5:
                name = rng.choice(names)
                if name in open_bufs:
                    if open_bufs[name] != disk[name]:
                        flags.add("closed-modified-buffer")
                    del open_bufs[name]
                    pr.srv.did_close(pr.path(name))
                    events.append(("didClose", name))
                else:
                    if name.startswith("lib") and rng.random() < 0.2:
                        # the imported file imports the main file (or itself): a cycle, which is an error but must not hurt the server
                        flags.add("import-cycle")
                        send_open(name, '.import * from "%s"\n' % rng.choice(["main.asm", name]) + lib_program(rng, 7))
                    else:
                        send_open(name, disk[name] if rng.random() < 0.5 else lib_program(rng, 7) if name != "main.asm" else small_program(rng))
            else:
                # a request of any type at any position
                name = rng.choice(names + ["not-in-project.asm"])
                text = open_bufs.get(name, disk.get(name, ""))
                if rng.random() < 0.25:
                    m = rng.choice(DOC_METHODS)
                    resp = pr.srv.request(m, doc_params(m, pr.uri(name)))
                    cls, ln, ch = "document", 0, 0
                else:
                    m = rng.choice(POS_METHODS)
                    cls, ln, ch = rng.choice(positions(rng, text))
                    resp = pr.srv.request(m, params_for(m, pr.uri(name), ln, ch))
                    if m == "textDocument/rename" and isinstance(resp, dict) and resp.get("result"):
                        flags.add("rename-request")
                events.append((m, name, cls, ln, ch))
                acc.evaluations += 1
                acc.cover("request_x_position_class", "%s @ %s" % (m.split("/")[-1], cls))
                docstate = "open" if name in open_bufs else ("closed" if name in disk else "not-in-project")
                w = {"disk": disk, "open_buffers": dict(open_bufs), "events": events[-12:], "request": m, "doc": name, "position": [ln, ch], "response": resp}
                if "dead" in resp:
                    err = pr.srv.stderr[-400:].decode("utf8", "replace")
                    mm = re.search(r"panicked at ([^\n:]+):\d+", err)
                    acc.violation("server-died|%s|%s|%s|%s" % (m.split("/")[-1], cls, docstate, mm.group(1) if mm else "exit %s" % resp["dead"]),
                                  "%s at %s:%d:%d (%s) killed the server: %s" % (m, name, ln, ch, cls, err[-200:].replace("\n", " | ")), w)
                    return
                if resp.get("busy"):
                    acc.inconc("%s still computing after the extended watchdog (%s, %s)" % (m, cls, docstate))
                    return
                if "timeout" in resp:
                    acc.violation("no-response|%s|%s|%s" % (m.split("/")[-1], cls, docstate), "no response to %s: every thread of the server is asleep and it consumes no CPU" % m, w)
                    return
                texts = dict(disk)
                texts.update(open_bufs)
                check_wellformed(acc, m, resp, texts, pr, w)
        # ---- a few requests that only read, directly in front of the comparison (no buffer changes behind them that would make
        #      the server analyse again): a rename that is not applied, outline requests, at identifiers of the open main file
        if "main.asm" in open_bufs:
            text = open_bufs["main.asm"]
            idents = [(mm.start(), mm.group(0)) for mm in re.finditer(r"[A-Za-z_][A-Za-z0-9_]*", text)]
            for _ in range(rng.randrange(0, 4)):
                m = rng.choice(["textDocument/rename", "textDocument/rename", "textDocument/documentSymbol", "workspace/symbol", "textDocument/prepareRename", "textDocument/completion"])
                if m in ("textDocument/documentSymbol", "workspace/symbol"):
                    resp = pr.srv.request(m, {"query": rng.choice(["", "lib", "a"])} if m == "workspace/symbol" else doc_params(m, pr.uri("main.asm")))
                    events.append((m, "main.asm", "document", 0, 0))
                elif idents:
                    lib_ids = [x for x in idents if x[1].startswith("lib")]
                    off, word = rng.choice(lib_ids if lib_ids and rng.random() < 0.6 else idents)
                    ln = text.count("\n", 0, off)
                    ch = off - (text.rfind("\n", 0, off) + 1) + rng.randrange(0, len(word))
                    ch = len(text[text.rfind("\n", 0, off) + 1:text.rfind("\n", 0, off) + 1 + ch].encode("utf-16-le")) // 2
                    resp = pr.srv.request(m, params_for(m, pr.uri("main.asm"), ln, ch))
                    events.append((m, "main.asm", "identifier-before-comparison", ln, ch))
                    if m == "textDocument/rename" and isinstance(resp, dict) and resp.get("result"):
                        flags.add("rename-request")
                else:
                    continue
                acc.evaluations += 1
                if isinstance(resp, dict) and "dead" in resp:
                    err = pr.srv.stderr[-400:].decode("utf8", "replace")
                    mm2 = re.search(r"panicked at ([^\n:]+):\d+", err)
                    acc.violation("server-died|%s|identifier-before-comparison|open|%s" % (m.split("/")[-1], mm2.group(1) if mm2 else "exit %s" % resp["dead"]),
                                  "%s killed the server: %s" % (m, err[-200:].replace("\n", " | ")), {"disk": disk, "open_buffers": dict(open_bufs), "events": events[-12:]})
                    return
        # ---- history independence: the same battery to the edited server and to two fresh ones
        acc.count("histories_completed")
        pr.srv.barrier()
        history_log = list(pr.srv.log)
        edited = battery(pr, open_bufs, disk, hist_seed)
        edited_diags = {pr.name_of_uri(u): normalise(d) for u, d in pr.srv.diagnostics.items()}
        un = edited.pop("__unresponsive__", None)
        if un:
            r_ = edited.get(un) or {}
            w = {"disk": disk, "open_buffers": dict(open_bufs), "events": events[-12:], "query": un, "response": r_}
            if r_.get("blocked"):
                acc.violation("no-response|%s|battery" % un.split(" ")[0].split("/")[-1],
                              "no response to %s: every thread of the server is asleep and it consumes no CPU" % un, w)
            else:
                err = pr.srv.stderr[-300:].decode("utf8", "replace")
                mm3 = re.search(r"panicked at ([^\n:]+):\d+", err)
                acc.violation("server-died|battery|%s|%s" % (un.split(" ")[0].split("/")[-1], mm3.group(1) if mm3 else "exit %s" % r_.get("dead")),
                              "%s killed the server: %s" % (un, err[-200:].replace("\n", " | ")), w)
            return
        # requests only read: the same question asked twice in a row of one server gets the same answer
        again = edited.pop("__again__", {})
        for key in sorted(again):
            a1, a2 = normalise(edited.get(key)), normalise(again[key])
            acc.count("answers_asked_twice")
            if "<no answer>" in (a1, a2):
                continue
            if a1 != a2:
                acc.violation("request-changes-answers|%s" % key.split(" ")[0].split("/")[-1],
                              "%s: asked twice of the same server without any change of a buffer in between: %s, then %s" % (key, str(a1)[:200], str(a2)[:200]),
                              {"disk": disk, "open_buffers": open_bufs, "events": events[-12:], "query": key, "first": a1, "second": a2})
                return
        fresh = []
        for k in range(2):
            f = L.Project.__new__(L.Project)
            f.dir, f.files = pr.dir, pr.files
            from ..client.lsp import LspServer
            f.srv = LspServer(pr.dir)
            f.srv.initialize()
            for name in sorted(open_bufs):
                f.srv.did_open(f.path(name), open_bufs[name])
            f.srv.barrier()
            fresh.append((f, battery(f, open_bufs, disk, hist_seed), {f.name_of_uri(u): normalise(d) for u, d in f.srv.diagnostics.items()}))
        try:
            (fa, ba, da), (fb, bb, db) = fresh
            ba.pop("__again__", None)
            bb.pop("__again__", None)
            ba.pop("__unresponsive__", None)
            bb.pop("__unresponsive__", None)
            for key in sorted(edited):
                a, b, e = normalise(ba.get(key)), normalise(bb.get(key)), normalise(edited[key])
                acc.count("battery_answers_compared")
                if a != b:
                    # two servers that were given exactly the same buffers: the answer is not a function of the buffers
                    acc.violation("nondeterministic|%s" % key.split(" ")[0].split("/")[-1],
                                  "%s: two fresh servers with the same buffers answer %s and %s" % (key, str(a)[:200], str(b)[:200]),
                                  {"disk": disk, "open_buffers": open_bufs, "query": key, "fresh_1": a, "fresh_2": b})
                    return
                if "<no answer>" in (a, e):
                    if e == "<no answer>" and a != "<no answer>":
                        acc.violation("server-died|battery|%s" % key.split(" ")[0].split("/")[-1], "edited server gave no answer to %s" % key, {"disk": disk, "open_buffers": open_bufs, "events": events})
                        return
                    continue
                if e != a:
                    # escalation: is it the history (deterministic) or per-process hash order (noise)? Three more fresh servers and two
                    # replays of the whole history answer the same query.
                    verdict = escalate(pr, key, open_bufs, history_log, a, e)
                    if verdict != "history":
                        acc.violation("%s|%s" % (verdict, key.split(" ")[0].split("/")[-1]),
                                      "%s: the same buffers do not always get the same answer (edited server %s, fresh servers %s)" % (key, str(e)[:200], str(a)[:200]),
                                      {"disk": disk, "open_buffers": open_bufs, "events": events, "query": key, "edited": e, "fresh": a})
                        return
                    acc.violation("history-dependence|%s|%s" % (key.split(" ")[0].split("/")[-1], "+".join(sorted(flags)) or "plain-edits"),
                                  "%s: edited server answers %s, fresh servers answer %s" % (key, str(e)[:200], str(a)[:200]),
                                  {"disk": disk, "open_buffers": open_bufs, "events": events, "query": key, "edited": e, "fresh": a})
                    return
            # diagnostics: last published per file; a file without publication equals an empty list
            # (a fresh server without any open buffer publishes nothing at all: then there is nothing to compare with)
            for name in (sorted(set(edited_diags) | set(da) | set(db)) if open_bufs else []):
                a, b, e = da.get(name, []), db.get(name, []), edited_diags.get(name, [])
                if a != b:
                    acc.violation("nondeterministic|publishDiagnostics", "two fresh servers with the same buffers publish %s and %s for %s" % (str(a)[:200], str(b)[:200], name),
                                  {"disk": disk, "open_buffers": open_bufs, "file": name, "fresh_1": a, "fresh_2": b})
                    return
                acc.count("diagnostic_sets_compared")
                if a != e:
                    verdict = escalate(pr, "publishDiagnostics " + name, open_bufs, history_log, a, e)
                    if verdict != "history":
                        acc.violation("%s|publishDiagnostics" % verdict, "diagnostics for %s are not always the same for the same buffers (edited server %s, fresh servers %s)" % (name, str(e)[:200], str(a)[:200]),
                                      {"disk": disk, "open_buffers": open_bufs, "events": events, "file": name, "edited": e, "fresh": a})
                        return
                    acc.violation("history-dependence|publishDiagnostics|%s" % ("+".join(sorted(flags)) or "plain-edits"),
                                  "diagnostics last published for %s: edited server %s, fresh servers %s" % (name, str(e)[:200], str(a)[:200]),
                                  {"disk": disk, "open_buffers": open_bufs, "events": events, "file": name, "edited": e, "fresh": a})
                    return
            acc.nontriv(hist_seed)
        finally:
            for f, _, _ in fresh:
                f.srv.kill()
    finally:
        pr.close()


def shard(idx, n, seed, tier, params):
    acc = Acc()
    rng = rng_for(seed, "c14", idx)
    t_end = time.time() + params["budget"]
    for i in range(params["histories"] // n):
        if time.time() > t_end:
            acc.count("budget_cut")
            break
        run_history(acc, rng, rng.getrandbits(32))
    return acc


def main(tier, seed):
    t0 = time.time()
    params = {"histories": 640 if tier == "quick" else 12000, "budget": 100 if tier == "quick" else 1500}
    acc = run_sharded(shard, seed, tier, params)
    return finish(
        "C14", tier, seed, acc, t0,
        rule="histories of 8-30 events against a real `mos lsp`: typing bursts (single-character inserts/deletes through broken states, "
             "including braces, quotes, non-ASCII), whole-text replacement (adding/removing imports), didOpen/didClose of main, imported and "
             "unrelated files (also with contents that differ from the disk), and every supported request type at identifier, end-of-line, "
             "past-end-of-line, past-end-of-file, huge, inside-multi-byte positions and for documents that are closed or not in the "
             "project. (1) every request must be answered and the process stay alive; (2) every returned range must lie inside its "
             "document and semantic tokens be sorted, non-overlapping, non-empty; (3) at the end a battery of queries (all document and "
             "position requests at 10 identifier positions per file, workspace symbols, last published diagnostics) is put to the edited "
             "server and to two fresh servers given only the open buffers: the two fresh servers must agree with each other (else the "
             "answer is nondeterministic) and the edited server must agree with them; a disagreement is re-examined with three more fresh "
             "servers and two replays of the whole history to tell history dependence from nondeterminism. Non-trivial = distinct "
             "history whose battery agreed.",
        assumptions=["set-valued answers are compared as sorted multisets; a query on which two fresh servers with identical buffers disagree is reported as nondeterminism (the answer is then not a function of the buffers either)"])
