"""C07 - loops, conditionals, macros, constants, scopes and imports mean their expansion: bytes(P) == bytes(expand(P))."""
import re
import random
import time

from ..common import Acc, Probe, finish, rng_for, run_sharded
from ..gen import expand
from ..gen import prog as P
from ..gen import render
from ..oracle import certcheck

OPS = ["parse", "codegen", "symbols"]
KINDS = ["loop", "if", "macro", "const", "brace", "import"]
KNOBS = {"p_macro": 0.8, "max_macros": 3, "p_loop": 1.0, "p_if": 1.0, "p_import": 0.5, "max_bytes": 400, "top_stmts": 12, "blk_in_loops": False,
         "dead_defs_invisible": True, "p_macro_name_clash": 0.15, "p_pc_const": 0.0, "p_macro_segment": 0.3}


def build(seed_int, kinds, blk_in_loops=False):
    rng = random.Random(seed_int)
    prog = P.generate(rng, dict(KNOBS, blk_in_loops=blk_in_loops))
    if "macro" in kinds and "loop" not in kinds and macro_call_in_loop(prog):
        # a macro body expanded into a loop body would put its labels into the loop's scope, which is one and the same scope in
        # every iteration (see the known finding about loops): the loops are expanded as well - nesting composes
        kinds = ["loop"] + list(kinds)
    for k in kinds:
        expand.EXPANSIONS[k](prog)
    if kinds:
        for body in prog.files.values():
            P.separate(body, with_label=True)
    files, r = render.render_program(prog)
    return prog, files


def macro_call_in_loop(prog):
    def walk(body, in_loop):
        for s in body:
            if s.k == "macrocall" and in_loop:
                return True
            for b in P.sub_blocks(s):
                if walk(b, in_loop or s.k == "loop"):
                    return True
        return False
    return any(walk(b, False) for b in prog.files.values())


def nonconvergence(msg, files):
    import re
    m = re.match(r"unknown identifier: (.*)$", msg)
    if not m:
        return False
    name = m.group(1).split(".")[-1]
    if name in "-+":
        return True
    return any(re.search(r"(^|\s)%s:|\.const\s+%s\s" % (re.escape(name), re.escape(name)), t) for t in files.values())


def blk_ref_in_loop(prog):
    def has_blk(t):
        return t[0] == "blk" or any(isinstance(x, tuple) and has_blk(x) for x in t[1:])

    def walk(body, in_loop):
        for s in body:
            if in_loop:
                for get, _ in expand.stmt_exprs(s):
                    if has_blk(get()):
                        return True
            for b in P.sub_blocks(s):
                if walk(b, in_loop or s.k == "loop"):
                    return True
        return False
    return any(walk(b, False) for b in prog.files.values())


WITNESSES = [
    # (name, P, expand(P)) for the known findings: checked on every run
    ("loop-scope-reuse", ".loop 2 {\n {\n nop\n bne -\n }\n}\n", "{\n nop\n bne -\n}\n{\n nop\n bne -\n}\n"),
    ("loop-label-rejected", ".loop 2 {\n {\n l: nop\n jmp l\n }\n}\n", "{\n l: nop\n jmp l\n}\n{\n l: nop\n jmp l\n}\n"),
]


def check_witnesses(acc, probe):
    for name, p, e in WITNESSES:
        acc.evaluations += 1
        o0 = outcome(probe.ask({"files": {"main.asm": p}, "ops": OPS}))
        o1 = outcome(probe.ask({"files": {"main.asm": e}, "ops": OPS}))
        if o1[0] != "ok":
            acc.inconc("witness expansion %s does not assemble: %s" % (name, o1[1]))
        elif o0[0] != "ok":
            acc.violation("P-rejected|%s" % name, "the hand expansion assembles, the construct does not: %s" % (o0[1],), {"P": p, "expanded": e})
        elif o0[1] != o1[1]:
            acc.violation("bytes-differ|%s" % name, "P assembles to %s, expand(P) to %s" % (o0[1], o1[1]), {"P": p, "expanded": e})


def outcome(res):
    if "parse" not in res:
        return ("probe", repr(res)[:100])
    if res["parse"].get("diags"):
        return ("parse-diags", [d["msg"] for d in res["parse"]["diags"]][:3])
    cg = res.get("codegen", {})
    if "panic" in cg:
        return ("panic", cg["panic"])
    if cg.get("diags"):
        return ("diags", sorted(d["msg"] for d in cg["diags"])[:3])
    return ("ok", {s["name"]: (s["start"], s["bytes"]) for s in cg["ctx"]["segments"]})


def features_in(prog, kind):
    k = {"loop": "loop", "if": "if", "macro": "macrocall", "const": "const", "brace": "braces", "import": "import"}[kind]
    return sum(1 for s in prog.all_stmts() if s.k == k)


def nesting_pairs(prog):
    out = set()

    def walk(body, stack):
        for s in body:
            kind = {"loop": "loop", "if": "if", "macrocall": "macro", "braces": "brace", "label": "named", "import": "import", "macrodef": "macrodef"}.get(s.k)
            if kind:
                for outer in stack:
                    out.add("%s>%s" % (outer, kind))
            for b in P.sub_blocks(s):
                walk(b, stack + ([kind] if kind else []))
    for body in prog.files.values():
        walk(body, [])
    return out


def import_chain_cases(acc, probe, rng, count):
    """Files that import files that import files (specific names, aliases, `*`, `* as`): the project must assemble to the bytes
    of the same code written into one file (an import means the imported file's code at the import site, in a scope)."""
    from . import c15
    for _ in range(count):
        if rng.random() < 0.3:
            # a namespace made by `* as ns` in the middle file is one of the names a `*` import of that file brings along
            name = rng.choice(["delay", "wait", "tick"]) + str(rng.randrange(10))
            lib = "%s: {\n    nop\n    rts\n}\n.const k%s = %d\n" % (name, name, rng.randrange(1, 200))
            mid_body = "go: {\n    jsr ns.%s\n    lda #ns.k%s\n    rts\n}\n" % (name, name)
            files = {"lib.asm": lib, "mid.asm": '.import * as ns from "lib.asm"\n' + mid_body,
                     "main.asm": '.import * from "mid.asm"\n    jsr go\n    jsr ns.%s\n    ldx #ns.k%s\n    rts\n' % (name, name)}
            flat = lib + mid_body.replace("ns.", "") + "    jsr go\n    jsr %s\n    ldx #k%s\n    rts\n" % (name, name)
            info = {"how": "*", "alias": "ns-reexport", "levels": 3}
            acc.evaluations += 1
            o0 = outcome(probe.ask({"files": files, "ops": OPS, "opts": {"pc": 0x2000}}))
            o1 = outcome(probe.ask({"files": {"main.asm": flat}, "ops": OPS, "opts": {"pc": 0x2000}}))
            w = {"kinds": ["import-chain"], "P": files, "expanded": {"main.asm": flat}, "base_pc": 0x2000, "chain": info}
            if o1[0] != "ok":
                acc.inconc("flattened namespace chain does not assemble: %r" % (o1[1],))
            elif o0[0] != "ok":
                acc.violation("P-rejected|import-chain|namespace-reexport", "the chain is rejected (%s) although the same code in one file assembles" % (o0[1],), w)
            elif "".join(v[1] for v in o0[1].values()) != "".join(v[1] for v in o1[1].values()):
                acc.violation("bytes-differ|import-chain|namespace-reexport", "chain and single file assemble differently", w)
            else:
                acc.count("import_chains_equal")
                acc.nontriv("chain-ns", tuple(sorted(files.items())))
                acc.cover("import_chain_shapes", "*/ns-reexport/levels=3")
            continue
        if rng.random() < 0.2:
            # one import statement that brings one symbol under two names (its own and an alias), inside a scope, while the
            # enclosing scope has a symbol with the plain name too: both names mean the imported routine
            name = rng.choice(["setcol", "putc", "wipe"]) + str(rng.randrange(10))
            alias = rng.choice(["border", "out", "clr"]) + str(rng.randrange(10))
            order = rng.choice([(name, "%s as %s" % (name, alias)), ("%s as %s" % (name, alias), name)])
            lib = "%s: {\n    inc $d020\n    rts\n}\n" % name
            uses = "    jsr %s\n    jsr %s\n    lda #<%s\n    rts\n" % (name, alias, rng.choice([name, alias]))
            files = {"lib.asm": lib, "main.asm": "%s: nop\nstart: {\n.import %s, %s from \"lib.asm\"\n%s}\n" % (name, order[0], order[1], uses)}
            flat = "%s: nop\nstart: {\n{\n%s}\n%s}\n" % (name, lib.replace(name + ":", "inner_zz:"), uses.replace(alias, "inner_zz").replace(name, "inner_zz"))
            # (the flat program spells both names as the one routine; the imported code sits in a scope of its own at the import site)
            flat = "%s: nop\nstart: {\ninner_zz: {\n    inc $d020\n    rts\n}\n%s}\n" % (name, uses.replace(alias, "inner_zz").replace(name, "inner_zz"))
            info = {"how": "two-names-one-symbol", "alias": alias, "levels": 2}
            acc.evaluations += 1
            o0 = outcome(probe.ask({"files": files, "ops": OPS, "opts": {"pc": 0x2000}}))
            o1 = outcome(probe.ask({"files": {"main.asm": flat}, "ops": OPS, "opts": {"pc": 0x2000}}))
            w = {"kinds": ["import-chain"], "P": files, "expanded": {"main.asm": flat}, "base_pc": 0x2000, "chain": info}
            if o1[0] != "ok":
                acc.inconc("flattened two-name import does not assemble: %r" % (o1[1],))
            elif o0[0] != "ok":
                acc.violation("P-rejected|import-chain|two-names-one-symbol", "the import is rejected (%s) although the same code in one file assembles" % (o0[1],), w)
            elif "".join(v[1] for v in o0[1].values()) != "".join(v[1] for v in o1[1].values()):
                acc.violation("bytes-differ|import-chain|two-names-one-symbol", "import under two names and single file assemble differently", w)
            else:
                acc.count("import_chains_equal")
                acc.nontriv("chain-2names", tuple(sorted(files.items())))
                acc.cover("import_chain_shapes", "two-names-one-symbol")
            continue
        files, _sites, info = c15.chain_project(rng)
        lib, mid = files["lib.asm"], files["mid.asm"]
        mid_body = mid.split("\n", 1)[1]
        imp = mid.split("\n", 1)[0]
        m = re.match(r'\.import (\w+)(?: as (\w+))?, (\w+) from', imp)
        name, alias = m.group(1), m.group(2)
        if alias:
            mid_body = re.sub(r"\b%s\b" % alias, name, mid_body)
        flat = lib + mid_body
        call_fix = lambda t: re.sub(r"\b(run|m\.go)\b", "go", t)
        if "top.asm" in files:
            flat += call_fix(files["top.asm"].split("\n", 1)[1])
        flat += call_fix(files["main.asm"].split("\n", 1)[1])
        acc.evaluations += 1
        r0 = probe.ask({"files": files, "ops": OPS, "opts": {"pc": 0x2000}})
        r1 = probe.ask({"files": {"main.asm": flat}, "ops": OPS, "opts": {"pc": 0x2000}})
        o0, o1 = outcome(r0), outcome(r1)
        w = {"kinds": ["import-chain"], "P": files, "expanded": {"main.asm": flat}, "base_pc": 0x2000, "chain": info}
        if o1[0] != "ok":
            acc.inconc("flattened import chain does not assemble: %r" % (o1[1],))
            continue
        if o0[0] != "ok":
            acc.violation("P-rejected|import-chain|%s" % re.sub(r"[0-9]+", "N", str(o0[1][0] if o0[1] else o0[0]))[:40],
                          "the import chain (%s) is rejected although the same code in one file assembles: %s" % (info, o0[1][:3] if o0[0] == "diags" else o0), w)
            continue
        b0 = b"".join(bytes.fromhex(v[1]) for v in o0[1].values())
        b1 = b"".join(bytes.fromhex(v[1]) for v in o1[1].values())
        if b0 != b1:
            acc.violation("bytes-differ|import-chain", "import chain assembles to %s, the same code in one file to %s" % (b0.hex(), b1.hex()), w)
            continue
        acc.count("import_chains_equal")
        acc.nontriv("chain", tuple(sorted(files.items())))
        acc.cover("import_chain_shapes", "%s/alias=%s/levels=%d" % (info["how"], bool(info["alias"]), info["levels"]))


def nested_loop_cases(acc, probe, rng, count):
    """Loops whose repeat count depends on the `index` of the loop around them, and bodies that use both indices: compared with
    the body written out (index replaced by its value in every iteration, innermost loop first)."""
    def body(rng, depth):
        lines = []
        for _ in range(rng.randrange(1, 4)):
            lines.append(rng.choice(["lda #index", ".byte index", ".byte index + %d" % rng.randrange(1, 9), "ldx #index * 2", ".word $400 + index", "nop"]))
        return lines

    def expand_loop(count_expr, lines, outer_index):
        """lines: list of str or ("loop", count_expr, lines). Returns the flat lines with `index` substituted."""
        n = eval(count_expr.replace("index", str(outer_index)) if outer_index is not None else count_expr)
        out = []
        for i in range(max(0, n)):
            for ln in lines:
                if isinstance(ln, tuple):
                    out.extend(expand_loop(ln[1], ln[2], i))
                else:
                    out.append(re.sub(r"\bindex\b", "(%d)" % i, ln))
        return out

    def render(count_expr, lines, ind=""):
        out = [ind + ".loop %s {" % count_expr]
        for ln in lines:
            if isinstance(ln, tuple):
                out.extend(render(ln[1], ln[2], ind + "    "))
            else:
                out.append(ind + "    " + ln)
        out.append(ind + "}")
        return out

    for _ in range(count):
        inner_count = rng.choice(["index + 1", "index", "3 - index", "index * 2", "2", "(index + 1) % 3"])
        inner = ("loop", inner_count, body(rng, 2))
        lines = body(rng, 1)
        lines.insert(rng.randrange(len(lines) + 1), inner)
        if rng.random() < 0.3:
            lines.append(("loop", rng.choice(["index", "1"]), [rng.choice([".byte index", "nop"]), ("loop", "index + 1", [".byte index"])]))
        outer_n = rng.randrange(1, 5)
        p_src = "\n".join(render(str(outer_n), lines)) + "\n.byte $ff\n"
        x_src = "\n".join(expand_loop(str(outer_n), lines, None)) + "\n.byte $ff\n"
        acc.evaluations += 1
        o0 = outcome(probe.ask({"files": {"main.asm": p_src}, "ops": OPS, "opts": {"pc": 0x2000}}))
        o1 = outcome(probe.ask({"files": {"main.asm": x_src}, "ops": OPS, "opts": {"pc": 0x2000}}))
        w = {"kinds": ["nested-loop-index"], "P": {"main.asm": p_src}, "expanded": {"main.asm": x_src}, "base_pc": 0x2000}
        if o1[0] != "ok":
            acc.inconc("written-out nested loop does not assemble: %r" % (o1[1],))
            continue
        if o0[0] != "ok":
            acc.violation("P-rejected|nested-loop-index", "nested loops are rejected although the body written out assembles: %s" % (o0[1],), w)
            continue
        if o0[1] != o1[1]:
            acc.violation("bytes-differ|nested-loop-index", "nested loops with an index-dependent count assemble to %s, written out to %s" % (
                "".join(v[1] for v in o0[1].values()), "".join(v[1] for v in o1[1].values())), w)
            continue
        acc.count("nested_loops_equal")
        acc.nontriv("nested-loop", p_src)


def transient_import_cases(acc, probe, rng, count):
    """An imported file whose forward references shrink from absolute to zero-page size between passes, so that a branch in
    it is out of range in an early pass only: must assemble like the same code in one file."""
    for _ in range(count):
        k = rng.randrange(44, 70)
        if rng.random() < 0.5:
            # forward references to a label further down are not emitted in the first pass; in the second one the branch behind
            # them still sees its target where it was in the first pass: out of range, once
            lib = "start: {\n" + "".join("    lda table + %d\n" % i for i in range(k)) + "    bne done\n    inx\ndone:\n    rts\n}\ntable:\n    .byte 1, 2, 3, 4\n"
        else:
            lib = "start: {\n    bne done\n" + "".join("    lda zpvar + %d\n" % i for i in range(k)) + "done:\n    rts\n}\n.const zpvar = $%02x\n" % rng.randrange(2, 0x80)
        how = rng.choice(['.import * from "lib.asm"', '.import start from "lib.asm"', '.import * as l from "lib.asm"'])
        call = "l.start" if " as l" in how else "start"
        files = {"main.asm": how + "\n    jsr %s\n" % call, "lib.asm": lib}
        flat = lib + "    jsr start\n"
        acc.evaluations += 1
        o0 = outcome(probe.ask({"files": files, "ops": OPS, "opts": {"pc": 0x2000}}))
        o1 = outcome(probe.ask({"files": {"main.asm": flat}, "ops": OPS, "opts": {"pc": 0x2000}}))
        w = {"kinds": ["import-transient-error"], "P": files, "expanded": {"main.asm": flat}, "base_pc": 0x2000}
        if o1[0] != "ok":
            acc.count("transient_import.flat_rejected")
            continue
        if o0[0] != "ok":
            acc.violation("P-rejected|import-transient-error", "the importing project is rejected (%s) although the same code in one file assembles" % (o0[1],), w)
            continue
        if "".join(v[1] for v in o0[1].values()) != "".join(v[1] for v in o1[1].values()):
            acc.violation("bytes-differ|import-transient-error", "import and single file assemble differently", w)
            continue
        acc.count("transient_imports_equal")
        acc.nontriv("transient-import", lib, how)


def late_choice_cases(acc, probe, rng, count):
    """A macro (or constant) whose definition is chosen by an `.if` that only settles in a later pass, used in front of the
    `.if`: must assemble like the program with the finally chosen definition written out."""
    for _ in range(count):
        a, b, arg = rng.randrange(1, 60), rng.randrange(1, 60), rng.randrange(1, 4)
        while b == a:
            b = rng.randrange(1, 60)
        defined_later = rng.random() < 0.5
        kind = rng.choice(["macro", "macro", "const"])
        lab = "turbo%d" % rng.randrange(10)
        if kind == "macro":
            p_src = ("pause(%d)\n.if defined(%s) { .macro pause(n) { ldx #n + %d } } else { .macro pause(n) { ldx #n + %d } }\n" % (arg, lab, a, b)
                     + ("%s: nop\n" % lab if defined_later else "nop\n") + "pause(%d)\n" % (arg + 1))
            chosen = a if defined_later else b
            x_src = "{ ldx #%d + %d }\n" % (arg, chosen) + ("%s: nop\n" % lab if defined_later else "nop\n") + "{ ldx #%d + %d }\n" % (arg + 1, chosen)
        else:
            p_src = ("lda #speed\n.if defined(%s) { .const speed = %d } else { .const speed = %d }\n" % (lab, a, b)
                     + ("%s: nop\n" % lab if defined_later else "nop\n") + "ldy #speed\n")
            chosen = a if defined_later else b
            x_src = "lda #%d\n" % chosen + ("%s: nop\n" % lab if defined_later else "nop\n") + "ldy #%d\n" % chosen
        acc.evaluations += 1
        o0 = outcome(probe.ask({"files": {"main.asm": p_src}, "ops": OPS, "opts": {"pc": 0x2000}}))
        o1 = outcome(probe.ask({"files": {"main.asm": x_src}, "ops": OPS, "opts": {"pc": 0x2000}}))
        w = {"kinds": ["late-choice-" + kind], "P": {"main.asm": p_src}, "expanded": {"main.asm": x_src}, "base_pc": 0x2000}
        if o1[0] != "ok":
            acc.inconc("written-out late-choice program does not assemble: %r" % (o1[1],))
            continue
        if o0[0] != "ok":
            acc.violation("P-rejected|late-choice-%s" % kind, "rejected (%s) although the program with the chosen definition written out assembles" % (o0[1],), w)
            continue
        if "".join(v[1] for v in o0[1].values()) != "".join(v[1] for v in o1[1].values()):
            acc.violation("bytes-differ|late-choice-%s" % kind, "assembles to %s, with the finally chosen definition written out to %s" % (
                "".join(v[1] for v in o0[1].values()), "".join(v[1] for v in o1[1].values())), w)
            continue
        acc.count("late_choices_equal")
        acc.nontriv("late-choice", p_src)


def shard(idx, n, seed, tier, params):
    acc = Acc()
    probe = Probe()
    rng = rng_for(seed, "c07", idx)
    t_end = time.time() + params["budget"]
    if idx == 0:
        check_witnesses(acc, probe)
    import_chain_cases(acc, probe, rng, 8 if tier == "quick" else 200)
    nested_loop_cases(acc, probe, rng, 12 if tier == "quick" else 400)
    transient_import_cases(acc, probe, rng, 3 if tier == "quick" else 40)
    late_choice_cases(acc, probe, rng, 6 if tier == "quick" else 200)
    for i in range(params["programs"] // n):
        if time.time() > t_end:
            acc.count("budget_cut")
            break
        pseed = rng.getrandbits(48)
        nk = rng.choice([1, 1, 2, 3])
        kinds = rng.sample(KINDS, nk)
        # one program in eight may refer to -/+ of brace scopes inside loop bodies (trigger of a known finding)
        bil = i % 8 == 7
        try:
            p0, f0 = build(pseed, [], bil)
        except render.SpellError:
            acc.count("generator.unspellable")
            continue
        if not any(features_in(p0, k) for k in kinds):
            acc.count("skipped.no-such-construct")
            continue
        r0 = probe.ask({"files": f0, "ops": OPS, "opts": {"pc": p0.base_pc}})
        o0 = outcome(r0)
        if o0[0] != "ok":
            acc.count("original." + o0[0])
            # P is rejected: then its expansion must be rejected too (same layout, same references) - a construct that is only
            # accepted once it is written out by hand does not mean its expansion
            if o0[0] == "diags":
                try:
                    p1, f1 = build(pseed, kinds, bil)
                except render.SpellError:
                    continue
                r1 = probe.ask({"files": f1, "ops": OPS, "opts": {"pc": p1.base_pc}})
                if outcome(r1)[0] == "ok":
                    acc.evaluations += 1
                    tag = "+".join(sorted(kinds))
                    loops_expanded = "loop" in kinds or ("macro" in kinds and macro_call_in_loop(p0))
                    if loops_expanded and any("cannot redefine symbol" in m for m in o0[1]):
                        sig = "P-rejected|loop-label-rejected"
                    elif loops_expanded and bil and blk_ref_in_loop(p0) and all("branch too far" in m for m in o0[1]):
                        sig = "P-rejected|loop-scope-reuse"      # `bne +` of a later iteration reaches for the + of the first one
                    elif re.search(r"cannot redefine symbol: [^'\"]*\$macro_\d+\.", str(o0[1])):
                        sig = "P-rejected|stale-macro-scope"
                    else:
                        sig = "P-rejected|%s|%s" % (tag, re.sub(r"[0-9]+", "N", str(o0[1][0]))[:40])
                    acc.violation(sig,
                                  "expand(P) [%s] assembles, P does not: %s" % (tag, o0[1][:3]),
                                  {"kinds": kinds, "P": f0, "expanded": f1, "base_pc": p0.base_pc, "seed": pseed})
                else:
                    acc.count("both-rejected")
            continue
        try:
            p1, f1 = build(pseed, kinds, bil)
        except render.SpellError as e:
            acc.inconc("expansion cannot be spelled: %s" % e)
            continue
        acc.evaluations += 1
        r1 = probe.ask({"files": f1, "ops": OPS, "opts": {"pc": p1.base_pc}})
        o1 = outcome(r1)
        for k in kinds:
            acc.count("expanded." + k, features_in(p0, k))
        for pr in nesting_pairs(p0):
            acc.cover("nesting_pairs", pr)
        tag = "+".join(sorted(kinds))
        if o1[0] != "ok":
            # (known finding: macro scopes are numbered per pass and never emptied; when an invocation in front of another one only
            # appears in a later pass - its `.if` condition was unknown before - the later one's scope number is taken over together
            # with what the other macro had defined in it)
            stale = re.search(r"cannot redefine symbol: [^'\"]*\$macro_\d+\.", str(o1[1]))
            acc.violation("expansion-rejected|stale-macro-scope" if stale else "expansion-rejected|%s|%s" % (tag, str(o1[1])[:40].split("$")[0]),
                          "P assembles, expand(P) [%s] does not: %s" % (tag, o1[1]),
                          {"kinds": kinds, "P": f0, "expanded": f1, "base_pc": p0.base_pc, "seed": pseed})
            continue
        acc.nontriv(pseed, tag)
        if o0[1] != o1[1]:
            d = next((name for name in o0[1] if o0[1].get(name) != o1[1].get(name)), "?")
            a, b = o0[1].get(d, (0, "")), o1[1].get(d, (0, ""))
            ba, bb = bytes.fromhex(a[1]), bytes.fromhex(b[1])
            k = next((j for j in range(min(len(ba), len(bb))) if ba[j] != bb[j]), min(len(ba), len(bb)))
            loopy = bil and blk_ref_in_loop(p0) and ("loop" in kinds or ("macro" in kinds and macro_call_in_loop(p0)))
            acc.violation("bytes-differ|loop-scope-reuse" if loopy else "bytes-differ|%s" % tag, "segment %s differs at offset %d ($%04X): P has %s, expand(P) has %s (lengths %d/%d)" % (
                d, k, a[0] + k, ba[k:k + 6].hex(), bb[k:k + 6].hex(), len(ba), len(bb)), {"kinds": kinds, "P": f0, "expanded": f1, "base_pc": p0.base_pc, "seed": pseed})
            continue
        acc.count("bytes_compared", sum(len(v[1]) // 2 for v in o0[1].values()))
        # tie the pair to the absolute semantics: the expansion itself must pass the certificate checker
        if i % 4 == 0:
            verdict, detail, w = certcheck.check(p1, r1["codegen"]["ctx"], p1.base_pc)
            acc.count("certcheck." + verdict)
            if verdict == "fail":
                acc.violation("expanded-certificate|%s|%s" % (tag, detail.kind), detail.msg, {"kinds": kinds, "expanded": f1, "base_pc": p1.base_pc})
        if i == 0:
            acc.sample({"kinds": kinds, "P": f0["main.asm"][:400], "expand(P)": f1["main.asm"][:600]})
    probe.close()
    return acc


def main(tier, seed):
    t0 = time.time()
    params = {"programs": 12000 if tier == "quick" else 250000, "budget": 80 if tier == "quick" else 1200}
    acc = run_sharded(shard, seed, tier, params)
    return finish(
        "C07", tier, seed, acc, t0,
        rule="pairs (P, expand(P)): ProgGen programs rich in loops, conditionals, macros (several invocations, parameters, local labels), "
             "constants, brace scopes and imports; 1-3 construct kinds are expanded by hand (loop -> repeated body with index := i; if -> "
             "selected branch; macro call -> { .const p = (arg) ... body }; const -> (value); brace scope -> alpha-renamed flat code with "
             "labels for -/+; import -> named scope at the import site) and both must assemble to identical bytes per segment; every "
             "4th expansion is also certificate-checked. Non-trivial = distinct (program, expansion set) that was compared.",
        assumptions=["expand() is the property's wording turned into a rewrite; `<c`/`>c` of an expanded constant become ((c) % 256) and (((c) >> 8) % 256)"])
