"""C20 - shutdown is clean in every session state (real `mos lsp` + its debug adapter socket + /proc)."""
import os
import socket
import tempfile
import shutil
import time
from concurrent.futures import ThreadPoolExecutor

from ..common import Acc, finish, rng_for
from ..client.dap import DapClient
from ..client.lsp import LspServer

SRC = '.test "a" {\n    lda #1\n    ldx #3\nl:\n    dex\n    bne l\n    nop\nforever:\n    jmp forever\n    brk\n}\n'
# a call that takes a while to return (20 x 65536 inner iterations): `next` over it keeps the debug session busy
SRC_LONG = ('.test "a" {\n    lda #20\n    jsr delay\n    nop\nforever:\n    jmp forever\ndelay:\n    sta $90\nd0:\n    ldx #0\nd1:\n    ldy #0\nd2:\n    dey\n'
            '    bne d2\n    dex\n    bne d1\n    dec $90\n    bne d0\n    rts\n}\n')
STATES = ["no-debugger", "attached-idle", "launched-not-started", "stopped-at-breakpoint", "running", "paused", "debugger-disconnected-again",
          "next-over-long-call", "continue-before-configuration-done", "step-out-that-never-returns", "launch-during-big-edit"]
ORDERS = ["shutdown-exit", "disconnect-then-shutdown", "shutdown-then-disconnect", "stdin-eof", "exit-without-shutdown-response-wait",
          "stdout-closed-then-stdin-eof", "debugger-attaches-between-shutdown-and-exit"]


def threads_state(pid):
    out = []
    try:
        for tid in os.listdir("/proc/%d/task" % pid):
            f = open("/proc/%d/task/%s/stat" % (pid, tid)).read().rsplit(")", 1)[1].split()
            out.append((tid, f[0], int(f[11]) + int(f[12])))
    except OSError:
        return None
    return sorted(out)


def port_listening(port):
    s = socket.socket()
    s.settimeout(0.5)
    try:
        s.connect(("127.0.0.1", port))
        s.close()
        return True
    except OSError:
        return False


def scenario(state, order, sched_seed, watchdog):
    d = tempfile.mkdtemp(prefix="mosverif-c20-")
    trace = os.path.join(d, "trace.log")
    env = {"MOS_VERIF_SCHED": "%d,%d" % (sched_seed, 200 if sched_seed % 3 else 0)}
    obs = {"state": state, "order": order, "sched": env["MOS_VERIF_SCHED"]}
    srv = None
    dap = None
    late = None
    try:
        open(os.path.join(d, "mos.toml"), "w").write("")
        path = os.path.join(d, "main.asm")
        src = SRC_LONG if state == "next-over-long-call" else SRC
        open(path, "w").write(src)
        srv = LspServer(d, env=env)
        if "result" not in srv.initialize():
            return dict(obs, verdict="inconclusive", why="initialize failed: %s" % srv.stderr[-200:])
        srv.did_open(path, src)
        srv.barrier()
        if state != "no-debugger":
            dap = DapClient(srv.port)
            dap.request("initialize", {"adapterID": "mos", "linesStartAt1": True, "columnsStartAt1": True})
            if state == "launch-during-big-edit":
                # the language server is busy analysing a big edit (it holds its context meanwhile) when the debugger asks to launch,
                # and the shutdown order follows right behind the edit
                srv.did_change(path, src + "nop\n" * 30000, 2)
                dap.send("launch", {"workspace": d, "testRunner": {"testCaseName": "a"}})
                time.sleep(0.02 * (sched_seed % 4))
            elif state != "attached-idle":
                r = dap.request("launch", {"workspace": d, "testRunner": {"testCaseName": "a"}})
                if not r.get("success"):
                    return dict(obs, verdict="inconclusive", why="launch failed: %r" % (r,))
                if state in ("stopped-at-breakpoint", "debugger-disconnected-again", "step-out-that-never-returns"):
                    dap.request("setBreakpoints", {"source": {"path": path}, "breakpoints": [{"line": 5}]})
                if state == "continue-before-configuration-done":
                    # the client resumes a machine it has not started yet
                    dap.request("continue", {"threadId": 1}, timeout=5)
                    time.sleep(0.05)
                if state == "next-over-long-call":
                    dap.request("setBreakpoints", {"source": {"path": path}, "breakpoints": [{"line": 3}]})
                if state not in ("launched-not-started", "continue-before-configuration-done"):
                    dap.request("configurationDone", None)
                    if state in ("stopped-at-breakpoint", "debugger-disconnected-again", "next-over-long-call", "step-out-that-never-returns"):
                        i, e = dap.wait_event("stopped", 0, 10)
                        if e is None:
                            return dict(obs, verdict="inconclusive", why="never stopped")
                        if state == "step-out-that-never-returns":
                            # the test's top level ends in an endless loop: there is no RTS to step out to
                            dap.send("stepOut", {"threadId": 1})
                            time.sleep(0.05)
                        if state == "next-over-long-call":
                            # the session thread is busy stepping over the call when the shutdown arrives
                            dap.send("next", {"threadId": 1})
                            time.sleep(0.05)
                    elif state == "paused":
                        time.sleep(0.05)
                        dap.request("pause", {"threadId": 1})
                        i, e = dap.wait_event("stopped", 0, 10)
                    else:
                        time.sleep(0.05)
                if state == "debugger-disconnected-again":
                    dap.request("disconnect", {})
                    dap.close()
                    dap = None
                    time.sleep(0.1)
        t0 = time.monotonic()
        if order == "disconnect-then-shutdown" and dap:
            dap.request("disconnect", {}, timeout=5)
            dap.close()
            dap = None
        if order == "stdin-eof":
            srv.p.stdin.close()
        elif order == "stdout-closed-then-stdin-eof":
            # the client goes away while the server still has something to say to it: the server's writes fail
            # (the reader thread is blocked in a read on that pipe, so the file object cannot be closed; the descriptor is
            # replaced by /dev/null instead, which drops this process' reference to the read end without freeing the descriptor
            # number for reuse by another thread. The pending read ends with the next thing the server writes.)
            try:
                nul = os.open(os.devnull, os.O_RDONLY)
                os.dup2(nul, srv.p.stdout.fileno())
                os.close(nul)
            except OSError:
                pass
            for k in range(8):
                try:
                    srv.notify("textDocument/didOpen", {"textDocument": {"uri": "file://%s/extra%d.asm" % (d, k), "languageId": "asm", "version": 1, "text": "lda undefined%d\n" % k}})
                except Exception:
                    break
            try:
                srv.p.stdin.close()
            except Exception:
                pass
        elif order == "exit-without-shutdown-response-wait":
            srv.send({"jsonrpc": "2.0", "id": 9999, "method": "shutdown", "params": None})
            srv.notify("exit", None)
        elif order == "debugger-attaches-between-shutdown-and-exit":
            r = srv.request("shutdown", None, timeout=watchdog)
            obs["shutdown_response"] = "result" in r or r
            try:
                late = DapClient(srv.port)
                late.send("initialize", {"adapterID": "mos", "linesStartAt1": True, "columnsStartAt1": True})
                time.sleep(0.05)
            except Exception:
                late = None
            srv.notify("exit", None)
        else:
            r = srv.request("shutdown", None, timeout=watchdog)
            obs["shutdown_response"] = "result" in r or r
            srv.notify("exit", None)
        if order == "shutdown-then-disconnect" and dap:
            dap.send("disconnect", {})
            time.sleep(0.05)
            dap.close()
            dap = None
        try:
            rc = srv.p.wait(timeout=watchdog)
        except Exception:
            rc = None
        obs["exit_status"] = rc
        obs["seconds"] = round(time.monotonic() - t0, 2)
        obs["stderr_tail"] = srv.stderr[-300:].decode("utf8", "replace")
        if rc is None:
            a = threads_state(srv.p.pid)
            time.sleep(1.0)
            b = threads_state(srv.p.pid)
            obs["threads"] = b
            if a is not None and a == b and all(t[1] in "SD" for t in b):
                obs["verdict"] = "hung"
            elif state == "step-out-that-never-returns" and b"LSP ended" in srv.stderr:
                # not a matter of time: the language server has ended (its log says so) and what the process still waits for - the
                # step out of code that has no RTS - never ends by construction of the program
                obs["verdict"] = "hung"
                obs["why"] = "the language server has ended; the process waits for a step that never returns"
            else:
                obs["verdict"] = "inconclusive"
                obs["why"] = "still consuming CPU after the watchdog"
            return obs
        obs["port_still_listening"] = port_listening(srv.port)
        # (a server whose client has disappeared may report that with a non-zero status: it only has to end)
        status_ok = rc == 0 or order == "stdout-closed-then-stdin-eof"
        obs["verdict"] = "ok" if status_ok and not obs["port_still_listening"] else "bad-exit"
        if os.path.exists(trace):
            obs["trace_points"] = sorted({l.split()[3] for l in open(trace) if len(l.split()) > 3})
        return obs
    except Exception as e:
        return dict(obs, verdict="inconclusive", why="harness: %r" % (e,))
    finally:
        if dap:
            dap.close()
        if late:
            late.close()
        if srv:
            srv.kill()
        shutil.rmtree(d, ignore_errors=True)


def main(tier, seed):
    t0 = time.time()
    acc = Acc()
    rng = rng_for(seed, "c20")
    reps = 8 if tier == "quick" else 120
    jobs = []
    for rep in range(reps):
        for st in STATES:
            for od in ORDERS:
                if st == "no-debugger" and "disconnect" in od:
                    continue
                jobs.append((st, od, rng.randrange(1, 10 ** 6)))
    with ThreadPoolExecutor(max_workers=12) as ex:
        results = list(ex.map(lambda j: scenario(j[0], j[1], j[2], 10.0), jobs))
    for o in results:
        acc.evaluations += 1
        acc.cover("state_x_order", "%s / %s" % (o["state"], o["order"]))
        v = o["verdict"]
        acc.count("verdict." + v)
        if v == "inconclusive":
            acc.inconc("%s/%s: %s" % (o["state"], o["order"], o.get("why")))
            continue
        acc.nontriv(o["state"], o["order"])
        if v == "ok":
            acc.count("clean_exits")
            continue
        if v == "hung":
            acc.violation("hung|%s|%s" % (o["state"], o["order"]), "process did not exit; all threads blocked without CPU progress: %s" % (o.get("threads"),), o)
        else:
            cls = "exit-status-%s" % o["exit_status"] if o["exit_status"] != 0 else "port-still-listening"
            panic = "panic" if "panicked" in o.get("stderr_tail", "") else "no-panic"
            acc.violation("%s|%s|%s|%s" % (cls, panic, o["state"], o["order"]), "exit status %s after %ss (%s)" % (o["exit_status"], o.get("seconds"), o.get("stderr_tail", "")[-160:].replace("\n", " | ")), o)
    acc.sample(results[0])
    acc.sample(results[-1])
    return finish(
        "C20", tier, seed, acc, t0,
        rule="every combination of session state {no debugger, attached idle, launched but not started, stopped at a breakpoint, running "
             "(endless loop), paused, debugger disconnected again, `continue` sent before configurationDone, a stepOut that never returns, a launch request arriving while a big edit is analysed} x shutdown order {shutdown+exit, DAP disconnect then shutdown, shutdown "
             "then disconnect, stdin closed without shutdown, shutdown+exit without waiting for the response, the client's stdout end closed while "
             "notifications are in flight followed by stdin EOF, a second debugger attaching between `shutdown` and `exit`}, plus the state `next` stepping over a long-running call, against a real `mos lsp` "
             "process with seeded H2 schedule perturbation; quick repeats every combination 8 times, thorough 120 times. The process must exit with "
             "status 0 and nothing may listen on the debug port afterwards; a process that is still there after the 10 s watchdog is "
             "judged by two /proc samples (all threads sleeping, no CPU progress = hung; otherwise inconclusive). Non-trivial = distinct "
             "(state, order) combination that produced a verdict.",
        assumptions=["10 s is about 100x the normal shutdown time; the watchdog alone never produces a violation"], min_nontrivial=2)
