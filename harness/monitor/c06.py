"""C06 - every input terminates cleanly: no panic/abort/hang; a binary or located diagnostics."""
import os
import re
import time

from ..common import Acc, Probe, TempProject, finish, rng_for, run_mos, run_sharded
from ..gen import corpus, mutate
from . import growth

OPS = ["parse", "display", "codegen", "greedy", "format", "listing", "merge", "vice", "symbols", "source_map"]
INTS = ["0", "1", "-1", "255", "256", "65535", "65536", "2147483648", "9223372036854775807", "9223372036854775808",
        "18446744073709551616", "1000000000000000000000000000000", "$0", "$ff", "$ffff", "$10000", "$7fffffffffffffff",
        "$8000000000000000", "$ffffffffffffffff", "$10000000000000000", "%0", "%" + "1" * 63, "%" + "1" * 64, "%1" + "0" * 64,
        "-9223372036854775807 - 1", "true", "false", "TRUE", "False", "(0 - 9223372036854775807 - 1)"]
TEMPLATES = [
    ".align {v}\nnop", "nop\n.align {v}", ".loop {v} {{ nop }}", "* = {v}\nnop", "nop\n* = {v}\nnop", ".byte 1 << {v}", ".byte 1 >> {v}",
    ".byte {v} << 1", ".byte 1 / {v}", ".byte 1 % {v}", ".byte {v} / -1", ".byte {v} % -1", ".byte {v} * {v}", ".byte {v} + {v}", ".byte -{v}",
    ".byte 0 - {v}", ".word {v}", ".dword {v}", "lda #{v}", "lda {v}", "lda {v},x", "jmp ({v})", "bne {v}", ".byte <{v}", ".const c = {v}\n.byte >c, <c, c",
    '.define segment {{\n name = "s"\n start = {v}\n}}\nnop', '.define segment {{\n name = "s"\n start = $1000\n pc = {v}\n}}\nnop',
    '.define segment {{\n name = "s"\n start = $1000\n write = {v}\n}}\nnop',
    '.define bank {{\n name = "b"\n size = {v}\n}}\nnop', '.define bank {{\n name = "b"\n size = 4\n fill = {v}\n}}\nnop',
    '.define bank {{\n name = "b"\n create-segment = {v}\n}}\nnop', ".if {v} {{ nop }} else {{ brk }}", ".assert {v}", '.test "t" {{ .assert {v}\n brk }}',
    ".macro m(a) {{ .byte a }}\nm({v})", ".loop 2 {{ .loop {v} {{ .byte index }} }}", ".text \"{{x}}\"\n.const x = {v}", ".byte defined({v})",
    ".var v = {v}\n.var v = v + {v}\n.byte v", ".align {v} + 1", ".byte ({v}) == ({v})", ".file \"{v}\"",
]
NAMES = ['"a.b"', '""', '"-"', '"+"', '"super"', '"a b"', '"$x"', '"1"', '"é"', '"default"', '"segments"', '"{n}"', "5", "n", "-1"]
NAME_TEMPLATES = [
    '.define segment {{\n name = {n}\n start = $1000\n}}\nnop', '.define bank {{\n name = {n}\n}}\nnop',
    '.define segment {{\n name = "s"\n bank = {n}\n}}\nnop', '.segment {n}\nnop', '.segment {n} {{ nop }}', '.test {n} {{ brk }}',
    '.define bank {{\n name = "b"\n filename = {n}\n}}\nnop', '.const n = "x"\n.define segment {{\n name = {n}\n}}\nnop',
    '.define segment {{\n name = {n}\n}}\n.define segment {{\n name = {n}\n}}\nnop', '.define thing {{\n name = {n}\n}}',
    '.define segment {{\n nome = {n}\n}}', '.define segment {{\n name = {n}\n name = {n}\n}}', '.import {n} from "b.asm"', '.text {n}', '.file {n}',
]
SPECIALS = [
    "", "\n", "\r", "\0", "﻿ nop", "{", "}", "{{{{", "}}}}", "(", ")", "/*", "*/", "/* /* */", '"', '"{', '"{}"', '"{a.}"', ".", "..", ".byte", ".byte ,",
    ".if", ".if 1", ".if 1 {", ".if 1 { } else", ".loop", ".macro", ".macro m", ".macro m(", ".macro m(a,", ".macro m() {", "m(", "m()", "m(,)",
    ".import", ".import *", ".import * from", '.import * from "', '.import a as from "x"', ".segment", ".define", ".define segment", ".define segment {",
    ".define segment { name", ".define segment { name = }", ".test", ".assert", ".trace(", ".trace()", ".text", ".text petscii", ".file", ".align",
    "* =", "*", "* = *", "a:", "a: a:", "a: {", ":", "::", "a.b:", "super:", "-:", "lda", "lda #", "lda (", "lda ($10", "lda ($10,", "lda ($10,x", "lda $10,",
    "lda #<", "lda #>", "lda #!", "lda #-", "lda super", "lda super.super.super.x", "lda a.", "lda .a", "lda a..b", "lda -", "lda +", "bne -", "bne +",
    "x: .macro x() { x() }\nx()", ".macro m() { m() }\nm()", ".macro a() { b() }\n.macro b() { a() }\na()", ".loop 100000 { .loop 100000 { nop } }", ".loop 65536 { .loop 65536 { } }", ".loop 1048576 { }", ".loop 1048577 { }",
    ".loop 9223372036854775807 { }", ".loop 100 { .loop 100 { .loop 200 { } } }", ".macro m() { m()\n m() }\nm()", ".macro a() { b()\n b() }\n.macro b() { a()\n a() }\na()",
    ".macro m(n) { m(n + 1)\n m(n + 2) }\nm(0)", "s: { .macro m() { s.m()\n m()\n super.s.m() } }\ns.m()", ".loop 3 { .loop 1 << 40 { } }", ".macro m() { .loop 1 << 30 { } }",
    ".if 0 { .loop 1 << 50 { } }", ".loop 2000 { .if index > 5 { .loop 2000 { } } }",
    # names of the assembler's own symbols and keywords in other roles
    "segments: { default: { .const start = 1 } }", "segments: { default: { start: nop } }", "segments: nop", ".const segments = 1\n.byte segments",
    "segments: { default: nop }\n.word segments.default.end", "cpu: { a: nop }", ".const index = 1\n.loop 2 { .byte index }", "ram: nop\n.byte ram",
    '.import super as bar from "b.asm"', '.import super from "b.asm"', '.import n as super from "b.asm"', '.import * as super from "b.asm"',
    "super: nop", ".const super = 1", ".macro super() { nop }\nsuper()", "lda super", "lda super.super.super", '.segment "super"', "a: { lda super.a.super.a }",
    # functions in their own arguments
    ".if defined(defined(foo)) { nop }", ".byte defined(defined(x))", ".byte defined(1 + defined(a))", '.text "{defined(defined(q))}"',
    # long flat constructs
    "lda #" + "1+" * 200000 + "1", ".byte " + "1*" * 100000 + "1", ".byte " + "1," * 200000 + "1", "a: " * 50000 + "nop", "nop\n" * 200000,
    ".byte " + "(1)+" * 50000 + "1", '.text "' + "{a}" * 50000 + '"\n.const a = 1', "lda " + "a." * 50000 + "b",
    # characters whose lower case is ASCII
    "br\u212a", "\u212a", "lda #1\n.loo\u212a 1 { }", "ld\u0131 #1", ".\u212a", "a\u212a: nop", ".text \"\u212a\"", ".byte \u0130", "st\u017f $10",
    # blocks inside self-invoking macros
    ".macro m() { " + "{" * 95 + " m() " + "}" * 95 + " }\nm()", ".macro m() { " + ".if 1 {" * 60 + " m() " + "}" * 60 + " }\nm()",
    ".macro m() { " + "a: {" * 50 + " m() " + "}" * 50 + " }\nm()",
    # segments used inside untaken code (analysis mode visits it)
    '.define segment { name = "a" start = $1000 }\n.define segment { name = "b" start = $2000 }\n.if 0 { .segment "b" { .if 0 { nop } } nop }',
    '.define segment { name = "a" start = $1000 }\n.macro m() { .segment "a" { .if 0 { .segment "a" { nop } } } }',
    '.if 0 { .define segment { name = "z" start = 1 } .segment "z" { nop } }', '.macro m() { .define bank { name = "k" } }\nnop',
    '.segment "data" { .byte 1, 2, 3 }\n.define segment { name = "data" start = $1000 }',
    ".byte\u00e9 1, 2", ".define foo\u20ac", "lda #\u00e9", ".if\u00e9 { }", ".loop\u20ac {}",
    ".loop 70000 { nop }", ".loop 10 { l: nop }", ".const a = a", ".const a = b\n.const b = a\n.byte a", ".var a = a + 1\n.byte a", "a: .byte b\nb: .byte a",
    "* = $ffff\nnop\nnop", "* = $10000\nnop", "* = $fffe\nlda $1234", ".segment \"default\" { .segment \"default\" { nop } }",
    ".if 0 { .define segment { name = \"z\" } }\n.segment \"z\"\nnop", ".macro m() { .if 0 { nop } }", ".macro m(a) { .if a { nop } else { brk } }",
    ".macro m(a) { lda #a\n .loop a { nop } }", ".if 0 { .macro m() { nop } }\nm()", ".if 0 { x: nop }\njmp x", ".if 0 { .import * from \"nope.asm\" }",
    ".macro m(s) { .segment s { nop } }", ".macro m() { .test \"t\" { brk } }", ".if 0 { * = -5\n.align 0 }", ".macro m() { .align 0 }", ".macro m(a) { .align a }",
    ".macro m(a) { .byte 1/a, 1%a, 1<<a }", ".if 0 { .byte 1 << 64 }", ".macro m() { bne 0 }", ".macro m() { bne + \n .loop 200 { nop } }",
    "nop\n" * 3000, "a: {" * 200 + "}" * 200, "((((" * 500, "lda #" + "(" * 300 + "1" + ")" * 300, "lda #" + "1+" * 3000 + "1", "lda #" + "-" * 50 + "1", "lda #" + "!" * 50 + "1",
    "/*" * 2000, "{ " * 3000, ".if 1 {" * 500, "lda #" + "(" * 5000 + "1", ".byte " + "(" * 20000, "m(" * 5000, "a: {" * 5000,
    # a segment that is defined later and covers what the bank holds so far on both sides
    '.define segment { name = "inner" start = $3000 }\n.define segment { name = "outer" start = $2000 }\n.segment "inner" { nop }\n.segment "outer" { nop\n* = $4000\nrts }',
    '.define segment { name = "a" start = $1010 }\n.define segment { name = "b" start = $1000 }\n.segment "a" { .byte 1 }\n.segment "b" { .byte 2\n* = $1020\n.byte 3 }',
    '.define bank { name = "k" fill = $ff }\n.define segment { name = "a" start = $10 bank = "k" }\n.define segment { name = "b" start = $8 bank = "k" }\n.segment "a" { nop }\n.segment "b" { .text "0123456789abcdef0123" }',
    # configuration maps inside configuration maps
    '.define segment { name = "a" start = 1 ' + "a = { " * 20000 + " b = 1 " + "}" * 20000 + " }", ".define segment { " + "a = { " * 5000,
    '.define bank { name = "k" ' + "x = { y = 1 " * 3000 + "}" * 3000 + " }\nnop", ".define segment { a = { b = { c = 1 } } }\nnop",
    ".macro a() { a()\n a() }\na()", ".macro a() { b()\n b() }\n.macro b() { a()\n a() }\na()",
    '.define bank {\n name = "b"\n size = -1\n fill = 0\n}\nnop', '.define bank {\n name = "b"\n size = 9223372036854775807\n fill = 0\n}\nnop',
]


def nested_branch_program(rng):
    """Nested scopes whose forward branches are slightly out of range (the family that hosts oscillating passes)."""
    depth = rng.randrange(1, 4)
    lines = []
    sizes = [rng.randrange(55, 70) for _ in range(depth)]
    for d in range(depth):
        lines.append(" " * d + "s%d: {" % d)
        lines.append(" " * d + " %s +" % rng.choice(["bne", "beq", "bcc"]))
        lines.extend([" " * d + " lda #1"] * sizes[d])
    for d in reversed(range(depth)):
        lines.append(" " * d + "}")
        if rng.random() < 0.6:
            lines.append(" " * d + rng.choice(["nop", "lda $10", "lda lz", ".align 4", ".byte <lz"]))
    lines.append("lz:")
    return "\n".join(lines)


def zp_flip_program(rng):
    """Forward references whose size (zero page vs absolute) depends on where later labels land."""
    base = rng.choice([0xE0, 0xF0, 0xF8, 0xFC, 0x100 - rng.randrange(1, 12)])
    n = rng.randrange(2, 7)
    lines = ["* = $%x" % base]
    for i in range(n):
        tgt = rng.randrange(n)
        lines.append("l%d: %s l%d%s" % (i, rng.choice(["lda", "sta", "ldx", "inc", "adc"]), tgt, rng.choice(["", "", ",x", " + 1", " - 1"])))
        if rng.random() < 0.3:
            lines.append(".align %d" % rng.choice([2, 4, 8]))
        if rng.random() < 0.3:
            lines.append(".if l%d > 255 { nop } else { .byte 1, 2 }" % rng.randrange(n))
    return "\n".join(lines)


def segment_cycle_program(rng):
    n = rng.randrange(2, 4)
    names = ["s%d" % i for i in range(n)]
    lines = []
    for i, nm in enumerate(names):
        other = names[(i + 1) % n] if rng.random() < 0.8 else rng.choice(names)
        lines.append('.define segment {\n name = "%s"\n start = segments.%s.%s%s\n}' % (
            nm, other, rng.choice(["end", "start"]), rng.choice(["", " + 1", " + 16", " - 1"])))
    for nm in names:
        lines.append('.segment "%s" { %s }' % (nm, rng.choice(["nop", "lda $10", ".byte 1, 2, 3", "lda segments.%s.end" % rng.choice(names)])))
    return "\n".join(lines)


IMPORT_GRAPHS = [
    {"main.asm": '.import * from "main.asm"\nnop'},
    {"main.asm": '.import * from "a.asm"\nnop', "a.asm": '.import * from "main.asm"\nx: nop'},
    {"main.asm": '.import * from "a.asm"\nnop', "a.asm": '.import * from "b.asm"\nx: nop', "b.asm": '.import * from "a.asm"\ny: nop'},
    {"main.asm": '.import * from "a.asm"\n.import * from "b.asm"\nnop', "a.asm": '.import c from "c.asm"\nx: nop', "b.asm": '.import c from "c.asm"\ny: nop', "c.asm": "c: nop"},
    {"main.asm": '.import * from "missing.asm"\nnop'},
    {"main.asm": '.import x from "a.asm"\n.import x from "a.asm"\nnop', "a.asm": "x: nop"},
    {"main.asm": '.import * from "a.asm" { .const p = 1 }\n.import * from "a.asm" { .const p = 2 }\nnop', "a.asm": ".byte p"},
    {"main.asm": '.import * as q from "a.asm"\n.import * as q from "a.asm"\njmp q.x', "a.asm": "x: nop"},
    {"main.asm": '.import nope from "a.asm"\nnop', "a.asm": "x: nop"},
    {"main.asm": '.import x as y, y as x from "a.asm"\njmp x', "a.asm": "x: nop\ny: nop"},
    {"main.asm": '.import * from "sub/a.asm"\nnop', "sub/a.asm": '.import * from "../main.asm"\nx: nop'},
    {"main.asm": '.import * from "./a.asm"\n.import * from "a.asm"\nnop', "a.asm": "x: nop"},
    {"main.asm": '.import * from "a.asm"\nnop', "a.asm": "lda #\n)\n{"},
    {"main.asm": 'l: { .import * from "a.asm" }\n.import * from "a.asm"\njmp l.x', "a.asm": "x: nop"},
    {"main.asm": '.macro m() { .import * from "a.asm" }\nm()\nm()', "a.asm": "x: nop"},
    {"main.asm": '.loop 3 { .import * from "a.asm" }', "a.asm": "x: nop"},
    {"main.asm": '.if 0 { .import * from "a.asm" }\nnop', "a.asm": '.import * from "main.asm"'},
    # an imported file that defines one of the symbols the assembler registers for a segment at the end of a pass
    {"main.asm": '.define segment { name = "code" start = $2000 }\n.import * from "lib.asm"\nnop', "lib.asm": "segments: {\n  code: {\n    end: rts\n  }\n}"},
    {"main.asm": '.define segment { name = "code" start = $2000 }\nnop\n.import * from "lib.asm"', "lib.asm": "segments: { code: { start: nop } }"},
    # cycles in which every import is spelled with a dot segment
    {"main.asm": '.import * from "sub/../main.asm"\nnop', "sub/x.asm": "nop"},
    {"main.asm": '.import * from "./main.asm"\nnop'},
    {"main.asm": '.import * from "./a.asm"\nnop', "a.asm": '.import * from "./main.asm"\nx: nop'},
    {"main.asm": '.import * from "sub/../a.asm"\nnop', "a.asm": '.import * from "sub/./../main.asm"\nx: nop', "sub/x.asm": "nop"},
    # aliases with dotted paths (an alias below another alias of the same statement, below itself, below the imported name)
    {"main.asm": '.import a as x, a.b as x.b.c from "a.asm"\nnop', "a.asm": "a: { b: { nop } }"},
    {"main.asm": '.import a as x.y from "a.asm"\njmp x.y', "a.asm": "a: { b: { nop } }"},
    {"main.asm": '.import a.b as a from "a.asm"\nnop', "a.asm": "a: { b: { nop } }"},
    {"main.asm": '.import a as a.b from "a.asm"\nnop', "a.asm": "a: { b: { nop } }"},
    {"main.asm": '.import a as x, a as x.a, a.b as x.a.b from "a.asm"\njmp x.a.b', "a.asm": "a: { b: { nop } }"},
    {"main.asm": '.import a.b as x, a as x.q from "a.asm"\nnop', "a.asm": "a: { b: { nop } }"},
    {"main.asm": '.import * as n from "a.asm"\n.import a as n.a.b.a from "a.asm"\nnop', "a.asm": "a: { b: { nop } }"},
]


# origins whose inputs are small hand-written programs: none of them needs more than a few thousand statements per pass
CURATED = {"int-arg", "name-arg", "special", "import-graph", "repo-source", "doubling-chain"}
WORK_CAP = 5_000_000          # random inputs (a hit is inconclusive)
CURATED_WORK_CAP = 4_000_000    # hand-written small inputs (a hit is a violation): loop budget 2^20 x at most 3 statements
RECURSION_WORK_CAP = 20_000     # the self-invoking macro specials: the depth limit ends them after a few hundred statements


RECURSIVE_MACROS = (".macro m() { m()", ".macro a() { b()", ".macro m(n) { m(n", "s: { .macro m() { s.m()", "x: .macro x() { x()")


def check_response(acc, r, files, origin):
    """Applies the C06 oracle to one full probe response."""
    acc.evaluations += 1
    witness = {"files": files, "origin": origin}
    if "died" in r:
        err = r.get("stderr", "")
        kind = "stack-overflow" if "overflowed its stack" in err else ("alloc-failure" if "memory allocation" in err else "signal/exit %s" % r["died"])
        acc.violation("abort|%s|%s" % (kind, origin_class(origin)), "process aborted (%s): %s" % (kind, err[-200:]), dict(witness, response=r))
        return
    if "blocked" in r:
        # every thread of the probe asleep, no CPU consumed for five consecutive seconds while a request is pending
        acc.violation("deadlock|%s" % origin_class(origin), "the library blocks forever (all threads asleep, %s s CPU in total) on %s" % (r.get("cpu_s"), origin[:80]),
                      dict(witness, response=r))
        return
    if "timeout" in r:
        acc.inconc("watchdog fired (cpu %s s) on %s" % (r.get("cpu_s"), origin))
        return
    if "harness_error" in r or "error" in r:
        acc.inconc("harness: %r" % (r,))
        return

    def panic(stage, msg):
        m = re.search(r"@ (?:/repo/|.*?/mos)?/?(.*?):(\d+)$", msg.strip())
        where = m.group(1) if m else "?"
        what = re.sub(r"[0-9]+", "N", msg.split(" @ ")[0])[:70]
        acc.violation("panic|%s|%s|%s" % (stage, where.replace("/repo/", ""), what), "panic in %s: %s" % (stage, msg), dict(witness, stage=stage, panic=msg))

    nlines = {name: text.count("\n") + 1 for name, text in files.items()}

    def check_diags(stage, diags):
        for d in diags:
            for lab in d.get("labels", []):
                if "panic" in lab:
                    panic(stage + ".diagnostic-location", lab["panic"])
                    continue
                if "nocodemap" in lab:
                    continue
                f = lab["file"]
                if f not in files:
                    acc.violation("location|%s|file-not-in-project" % stage, "diagnostic %r points to %r" % (d["msg"], f), dict(witness, diag=d))
                    continue
                text = files[f].encode("utf8")
                if not (0 <= lab["o0"] <= lab["o1"] <= len(text)) or lab["l0"] >= nlines[f] + 1:
                    acc.violation("location|%s|outside-file" % stage, "diagnostic %r location %r outside file of %d bytes" % (d["msg"], lab, len(text)), dict(witness, diag=d))

    p = r.get("parse", {})
    if "panic" in p:
        panic("parse", p["panic"])
        return
    if "work_cap_exceeded" in p:
        # H3 in the parser: more statements parsed / files read than the cap - a logical step count, not a timeout
        if origin_class(origin) in CURATED:
            acc.violation("work-explosion|parse|%s" % origin_class(origin), "more than %d parser steps (1 per statement, 1024 per source file read) for the %d-byte input %s" % (
                p["work_cap_exceeded"], sum(len(t) for t in files.values()), origin[:60]), dict(witness, stage="parse"))
        else:
            acc.inconc("work cap (%d parser steps) exceeded by a random input: %s" % (p["work_cap_exceeded"], origin[:60]))
        return
    check_diags("parse", p.get("diags", []))
    for name, v in (p.get("display") or {}).items():
        if isinstance(v, dict) and "panic" in v:
            panic("display", v["panic"])
    for name, v in (r.get("format") or {}).items():
        if isinstance(v, dict) and "panic" in v:
            panic("format", v["panic"])
    for stage in ("codegen", "greedy"):
        c = r.get(stage)
        if c is None:
            continue
        acc.count("ran." + stage)
        if "panic" in c:
            panic(stage, c["panic"])
            continue
        if "work_cap_exceeded" in c:
            # H3: more statements emitted in one pass than the (generous) cap - a logical step count, not a timeout
            cls = origin_class(origin)
            if cls in CURATED:
                sig = "work-explosion|%s|%s" % (stage, "macro-doubling-chain" if "doubling-chain" in origin else cls)
                acc.violation(sig, "more than %d statements emitted in one pass of %s for the %d-byte input %s" % (
                    c["work_cap_exceeded"], stage, sum(len(t) for t in files.values()), origin[:60]), dict(witness, stage=stage))
            else:
                acc.inconc("work cap (%d statements in one pass) exceeded by a random input: %s" % (c["work_cap_exceeded"], origin[:60]))
            continue
        acc.cover("work_per_pass_log10", len(str(c.get("work", 0))))
        check_diags(stage, c.get("diags", []))
        ps = c.get("passes", {})
        acc.cover("pass_counts", min(ps.get("n", 0), 30))
        if stage == "greedy" and (p.get("diags") or []):
            acc.count("greedy_with_parse_errors")
        st = ps.get("stopped")
        if st and st.startswith("cycle"):
            acc.violation("nonterminating|%s|%s" % (stage, origin_class(origin)),
                          "pass loop still running at the cap and the per-pass state digests repeat with period %s (digests %s)" % (st.split(":")[1], ps.get("digests", [])[-6:]),
                          dict(witness, stage=stage, passes=ps))
        elif st == "cap":
            acc.inconc("pass cap reached without a repeating state (%s): errors per pass %s" % (origin, ps.get("errors", [])[-5:]))
        for k in ("ctx_panic", "listing_panic", "merge_panic", "vice_panic"):
            if k in c:
                panic(stage + "." + k.split("_")[0], c[k])
        if not c.get("diags") and not st and "ctx" not in c:
            acc.violation("no-output-no-diagnostic|%s" % stage, "neither a context nor a diagnostic", witness)
        if not c.get("diags") and not st:
            acc.nontriv(tuple(sorted(files.items())))


def origin_class(origin):
    return origin.split(":")[0]


def shard(idx, n, seed, tier, params):
    acc = Acc()
    probe = Probe(timeout=150)
    rng = rng_for(seed, "c06", idx)
    t_end = time.time() + params["budget"]
    sources = corpus.repo_sources() + corpus.doc_snippets() + corpus.test_snippets()
    fragments = [t for _, t in sources] + corpus.SHORT_PROGRAMS

    def run(files, origin, main="main.asm"):
        cap = CURATED_WORK_CAP if origin_class(origin) in CURATED else WORK_CAP
        if origin_class(origin) == "doubling-chain":
            cap = 200_000
        elif origin_class(origin) == "special" and any(files["main.asm"].lstrip("nop\nl: {").startswith(t) for t in RECURSIVE_MACROS):
            cap = RECURSION_WORK_CAP
        # (the listing writer is quadratic in the number of source lines - 40 s for 20 000 lines - and so is the probe's own dump of
        # the source map with its address look-ups; slow is not "never ends", so
        # inputs with thousands of lines skip that stage instead of running into the watchdog)
        many_lines = sum(t.count("\n") for t in files.values() if isinstance(t, str)) > 5000
        r = probe.ask({"files": files, "main": main, "ops": [o for o in OPS if not (many_lines and o in ("listing", "source_map"))], "opts": {"pass_cap": 1500, "work_cap": cap}})
        check_response(acc, r, files, origin)
        return r

    jobs = []
    for t in TEMPLATES:
        for v in INTS:
            jobs.append(({"main.asm": t.format(v=v)}, "int-arg"))
    for t in NAME_TEMPLATES:
        for v in NAMES:
            jobs.append(({"main.asm": t.format(n=v), "b.asm": "n: nop"}, "name-arg"))
    for s in SPECIALS:
        jobs.append(({"main.asm": s}, "special"))
        if ".loop 100000" not in s:
            jobs.append(({"main.asm": "nop\n" + s + "\nnop"}, "special"))
            jobs.append(({"main.asm": "l: {\n" + s + "\n}"}, "special"))
    for g in IMPORT_GRAPHS:
        jobs.append((g, "import-graph"))
    # a chain of macros that each invoke the previous one twice: 2^24 expansions, although the output is full after 2^16
    jobs.append(({"main.asm": ".macro m0() { nop }\n" + "".join(".macro m%d() { m%d()\n m%d() }\n" % (i, i - 1, i - 1) for i in range(1, 25)) + "m24()"},
                 "doubling-chain"))
    for name, text in sources:
        jobs.append(({"main.asm": text}, "repo-source"))
    jobs = [j for i, j in enumerate(jobs) if i % n == idx]
    for files, origin in jobs:
        run(files, origin + ":" + next(iter(files.values()))[:40].replace("\n", "⏎"))
    acc.sample({"origin": jobs[0][1], "files": {k: v[:80] for k, v in jobs[0][0].items()}})

    # growth monitor: instruction counts (callgrind) of nesting families at four depths
    growth.run_families(acc, sorted(growth.FAMILIES)[idx::n])

    k = 0
    while time.time() < t_end and k < params["random"] // n:
        k += 1
        r = rng.random()
        if r < 0.12:
            files, origin = {"main.asm": nested_branch_program(rng)}, "nested-branch"
        elif r < 0.22:
            files, origin = {"main.asm": zp_flip_program(rng)}, "zp-flip"
        elif r < 0.30:
            files, origin = {"main.asm": segment_cycle_program(rng)}, "segment-cycle"
        elif r < 0.40:
            # random import graph over up to 4 files
            names = ["main.asm", "a.asm", "b.asm", "c.asm"][:rng.randrange(1, 5)]
            files = {}
            for nm in names:
                body = []
                for _ in range(rng.randrange(0, 3)):
                    tgt = rng.choice(names + ["missing.asm"])
                    body.append(rng.choice(['.import * from "%s"', '.import x from "%s"', '.import * as q from "%s"', '.import x as y from "%s" { .const k = 1 }']) % tgt)
                body.append(rng.choice(["x: nop", "x: lda #1", ".byte 1", "nop"]))
                files[nm] = "\n".join(body)
            origin = "random-import-graph"
        elif r < 0.5:
            t = rng.choice(TEMPLATES)
            v = rng.choice(INTS + ["%d" % rng.randrange(-300, 70000), "$%x" % rng.getrandbits(rng.randrange(1, 70))])
            files, origin = {"main.asm": t.format(v=v) + "\n" + rng.choice(TEMPLATES).format(v=rng.choice(INTS))}, "int-arg-random"
        elif r < 0.9:
            base = rng.choice(fragments)
            if len(base) > 1200:
                a = rng.randrange(len(base) - 800)
                base = base[a:a + rng.randrange(100, 800)]
            files, origin = {"main.asm": mutate.random_mutant(rng, base, fragments)}, "mutant"
        else:
            files = {"main.asm": "".join(chr(rng.choice([rng.randrange(0, 128), rng.randrange(0, 128), rng.randrange(128, 0x800), rng.randrange(0x10000, 0x10100)])) for _ in range(rng.randrange(1, 80)))}
            origin = "random-chars"
        run(files, origin + ":")
        acc.count("gen." + origin)
    probe.close()

    # CLI slice: real files (things an in-memory project cannot express)
    if idx == 0:
        cli_slice(acc)
    return acc


def cli_slice(acc):
    cases = []
    cases.append(("invalid-utf8", {"main.asm": b"lda #1\n\xff\xfe\xc3\x28 nop\n"}, None))
    cases.append(("invalid-utf8-import", {"main.asm": '.import * from "b.asm"\nnop', "b.asm": b"\xc0\xaf\n"}, None))
    cases.append(("nul-bytes", {"main.asm": b"nop\x00\x00\nnop"}, None))
    cases.append(("empty", {"main.asm": ""}, None))
    cases.append(("missing-entry", {"other.asm": "nop"}, None))
    cases.append(("dir-as-entry", {"main.asm/x": ""}, None))
    cases.append(("dir-as-import", {"main.asm": '.import * from "b.asm"\nnop', "b.asm/x": ""}, None))
    cases.append(("dangling-symlink-import", {"main.asm": '.import * from "b.asm"\nnop'}, ("b.asm", "nowhere.asm")))
    cases.append(("self-symlink", {"main.asm": '.import * from "b.asm"\nnop'}, ("b.asm", "b.asm")))
    cases.append(("self-import", {"main.asm": '.import * from "main.asm"\nnop'}, None))
    cases.append(("import-cycle", {"main.asm": '.import * from "a.asm"\nnop', "a.asm": '.import * from "main.asm"\nx: nop'}, None))
    cases.append(("file-directive-dir", {"main.asm": '.file "sub"', "sub/x": ""}, None))
    cases.append(("file-directive-missing", {"main.asm": '.file "nope.bin"'}, None))
    cases.append(("bad-toml", {"main.asm": "nop"}, "toml:[build\n"))
    cases.append(("toml-unknown-key", {"main.asm": "nop"}, "toml:[build]\nfoo = 1\n"))
    cases.append(("toml-entry-missing", {"main.asm": "nop"}, 'toml:[build]\nentry = "x.asm"\n'))
    cases.append(("toml-bytes0", {"main.asm": ".byte 1,2,3"}, 'toml:[build]\nlisting = true\n[formatting]\nlisting.num-bytes-per-line = 0\n'))
    cases.append(("toml-target-is-file", {"main.asm": "nop", "target": "x"}, None))
    cases.append(("oscillating", {"main.asm": "a: {\n bne +\n" + " lda #1\n" * 66 + " b: {\n  bne +\n" + "  lda #1\n" * 64 + " }\n nop\n}\n"}, None))
    cases.append(("macro-recursion-twice", {"main.asm": ".macro m() { m()\n m() }\nm()"}, None))
    cases.append(("huge-loop", {"main.asm": ".loop 9223372036854775807 { }\n.loop 65536 { .loop 65536 { } }"}, None))
    cases.append(("deep-parens", {"main.asm": "lda " + "(" * 40 + "1\n.byte " + "m(" * 40 + "1"}, None))
    # the import graphs once more with real files (the file system source resolves `.` and `..` itself)
    for gi, g in enumerate(IMPORT_GRAPHS):
        cases.append(("import-graph-%d" % gi, g, None))
    for name, files, extra in cases:
        toml = extra[5:] if isinstance(extra, str) and extra.startswith("toml:") else ""
        with TempProject(files, toml) as tp:
            if isinstance(extra, tuple):
                os.symlink(extra[1], os.path.join(tp.dir, extra[0]))
            for cmd in (["build"], ["format"], ["test"]):
                acc.evaluations += 1
                r = run_mos(["--no-color", "-e", "Short"] + cmd, tp.dir, timeout=120,
                            env={"MOS_VERIF_WORK": str(RECURSION_WORK_CAP if name.startswith("macro-recursion") else CURATED_WORK_CAP)})
                acc.count("cli." + cmd[0])
                w = {"case": name, "cmd": cmd, "files": {k: repr(v)[:300] for k, v in files.items()}, "rc": r["rc"], "stdout": r["out"][-400:], "stderr": r["err"][-600:]}
                if r["timeout"]:
                    acc.inconc("cli watchdog on %s %s" % (name, cmd))
                elif r["rc"] == 96:
                    acc.violation("work-explosion|cli|%s" % name, "mos %s: %s" % (cmd[0], r["err"].strip()[-120:]), w)
                elif r["rc"] == 97:
                    acc.violation("nonterminating|cli|%s" % name, "mos %s: pass loop never ends (%s)" % (cmd[0], r["err"].strip()[-80:]), w)
                elif r["rc"] == 101 or (r["rc"] is not None and r["rc"] < 0) or r["rc"] == 134:
                    m = re.search(r"panicked at ([^\n]*)", r["err"])
                    loc = re.sub(r":\d+:\d+", "", m.group(1)) if m else "?"
                    acc.violation("cli-crash|%s|%s|%s" % (cmd[0], name, loc.replace("/repo/", "")), "mos %s on %s: exit %s: %s" % (cmd[0], name, r["rc"], r["err"][-200:]), w)
                elif r["rc"] == 0:
                    acc.nontriv("cli", name, cmd[0])
                elif not (r["out"].strip() or r["err"].strip()):
                    acc.violation("cli-silent-failure|%s|%s" % (cmd[0], name), "exit %s without any message" % r["rc"], w)


def main(tier, seed):
    t0 = time.time()
    params = {"budget": 70 if tier == "quick" else 1200, "random": 60000 if tier == "quick" else 1500000}
    acc = run_sharded(shard, seed, tier, params)
    return finish(
        "C06", tier, seed, acc, t0,
        rule="inputs: %d directive templates x %d integer spellings (0, -1, 2^63-1, 2^63, 2^64, 10^30, true/false in any case, ...), "
             "%d name templates x %d hostile names, %d hand-written truncated/recursive/huge specials (alone, between statements, inside a "
             "block), %d import graphs (self, cycles, diamond, missing, parameter blocks), every repository source; seeded random: nested "
             "out-of-range branches, zp/abs flip programs, mutually dependent segments, random import graphs, mutants, random characters; "
             "CLI slice with real files (invalid UTF-8, directory/symlink in place of a file, bad mos.toml) for build/format/test. Each "
             "input runs parse, Display, build-mode codegen (when the parse is clean, as the CLI), analysis-mode codegen (always, as the "
             "language server), format, listing, bank merge, symbol export in-process with panics caught per stage; non-termination is "
             "decided by the H1 pass observer (repeating state digests), never by a timer. Non-trivial = distinct project that assembled "
             "without diagnostics (the rest exercised the diagnostic paths)." % (len(TEMPLATES), len(INTS), len(NAME_TEMPLATES), len(NAMES), len(SPECIALS), len(IMPORT_GRAPHS)),
        assumptions=["the sandbox runs as root, so unreadable files are emulated by directories, dangling symlinks and invalid UTF-8",
                     "release semantics (no overflow checks); liveness restated as: the pass loop ends within 1500 passes; still running then with a periodic state sequence = proven non-termination, otherwise inconclusive"])
