"""Shared helpers of the LSP monitors: scratch projects on disk, one real `mos lsp` per project."""
import os
import shutil
import tempfile

from ..client.lsp import LspServer, uri_of
from ..gen import prog as P
from ..gen import render

NAV_KNOBS = {"p_import": 0.6, "p_macro": 0.8, "max_macros": 2, "p_segments": 0.15, "max_bytes": 220, "top_stmts": 9, "p_loop": 0.6, "p_if": 0.8, "p_setpc": 0.2}


class Project:
    """A generated program written to a scratch directory with a running language server on it."""

    def __init__(self, files, open_files=("main.asm",), env=None):
        self.dir = tempfile.mkdtemp(prefix="mosverif-lsp-")
        self.files = dict(files)
        with open(os.path.join(self.dir, "mos.toml"), "w") as f:
            f.write("")
        for name, text in files.items():
            path = os.path.join(self.dir, name)
            os.makedirs(os.path.dirname(path), exist_ok=True)
            with open(path, "w", newline="") as f:
                f.write(text)
        self.srv = LspServer(self.dir, env=env)
        self.init = self.srv.initialize()
        self.open = set(open_files)
        self.version = 1
        for name in open_files:
            self.srv.did_open(self.path(name), files[name])
        self.srv.barrier()

    def set_contents(self, contents):
        """Brings the project to `contents` the way a client does: files that are not open in the editor change on disk,
        open ones through didChange (sent last, so that the server looks at the disk again)."""
        for name in sorted(contents):
            if name not in self.open:
                with open(self.path(name), "w", newline="") as f:
                    f.write(contents[name])
        for name in sorted(contents):
            if name in self.open:
                self.version += 1
                self.srv.did_change(self.path(name), contents[name], self.version)

    def path(self, name):
        return os.path.join(self.dir, name)

    def uri(self, name):
        return uri_of(self.path(name))

    def name_of_uri(self, uri):
        prefix = uri_of(self.dir) + "/"
        import urllib.parse
        return urllib.parse.unquote(uri[len(prefix):]) if uri.startswith(prefix) else uri

    def pos_request(self, method, name, line, character, extra=None):
        params = {"textDocument": {"uri": self.uri(name)}, "position": {"line": line, "character": character}}
        if extra:
            params.update(extra)
        return self.srv.request(method, params)

    def close(self):
        self.srv.kill()
        shutil.rmtree(self.dir, ignore_errors=True)


def gen_nav_program(rng, layout=None, knobs=None):
    """(prog, files, renderer) with every identifier occurrence recorded, or None."""
    prog = P.generate(rng, dict(NAV_KNOBS, **(knobs or {})))
    try:
        files, r = render.render_program(prog, layout)
    except render.SpellError:
        return None
    return prog, files, r


def analysed_stmts(prog):
    """uids of the statements the server's analysis-mode assembly visits: everything except bodies of loops that run zero times
    (untaken branches and uninvoked macros are visited)."""
    out = set()

    def walk(body, on):
        for s in body:
            if on:
                out.add(s.uid)
            if s.k == "loop":
                walk(s.block, on and s.count > 0)
            elif s.k == "import":
                if s.block is not None:
                    walk(s.block, on)
                walk(prog.files[s.file], on)
            else:
                for b in P.sub_blocks(s):
                    walk(b, on)
    walk(prog.files[prog.main], True)
    return out


def occurrences(prog, r):
    """Identifier occurrences that denote a definition: the last component of every spelled path and the intermediate
    components that name a label scope. `super`, import namespaces and block symbols are left out. Each gets flags:
    analysed (visited by analysis-mode assembly), in_import_stmt."""
    ana = analysed_stmts(prog)
    out = []
    for o in r.occurrences:
        t = o.get("target")
        if t is None:
            continue
        st = o.get("stmt")
        out.append(dict(o, target=t, analysed=(st is None or st.uid in ana), in_import_stmt=(st is not None and st.k == "import"),
                        site_kinds=[a.kind for a in o["site"].chain()] if o.get("site") is not None else []))
    return out


def rng_tuple(rg):
    return (rg["start"]["line"], rg["start"]["character"], rg["end"]["line"], rg["end"]["character"])


def dead_regions(prog, dead_macros):
    """Interiors of the bodies of never-invoked macros, as (file, (line, col) after `{`, (line, col) of `}`): what the one-off
    analysis of such a body binds is not judged. Position based, because a body may share its lines with other statements."""
    out = []
    for st in prog.all_stmts():
        if st.k == "macrodef" and st.bscope.uid in dead_macros and "lbrace" in st.marks and "rbrace" in st.marks:
            lb, rb = st.marks["lbrace"], st.marks["rbrace"]
            out.append((lb[0], (lb[3], lb[4]), (rb[1], rb[2])))
    return out


def in_regions(regions, f, line, col):
    return any(f == rf and a <= (line, col) <= b for rf, a, b in regions)
