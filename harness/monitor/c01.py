"""C01 - instruction encoding: exhaustive form/value/branch/pair enumeration against the ISA table."""
import itertools
import re
import time

from ..common import Acc, Probe, finish, rng_for, run_sharded
from ..oracle import isa6502 as isa

BASE = 0x2000
VALUES = [0, 1, 127, 128, 255, 256, 257, 0x0FFF, 0x7FFF, 0x8000, 0xFFFF]
OUT_OF_DOMAIN = [-1]
# beyond 16 bits: judged partially (see beyond_expect) - the low 8/16/32 bits of these look like small legal operands
BEYOND = [65536, 65537, 65536 + 255, 70000, 2 ** 31, 2 ** 32 - 1, 2 ** 32, 2 ** 32 + 16, 2 ** 32 + 255, 2 ** 32 + 256,
          2 ** 32 + 0x1234, 2 ** 48 + 5, 2 ** 63 - 1]
OPTIONAL_OPERAND = {"asl", "lsr", "rol", "ror"}
SEPS = {"nl": "\n", "blank": "\n\n", "cpp": "\n// c\n", "c": "\n/* c */\n"}


def lit(v, radix):
    if v < 0:
        return "-" + lit(-v, radix)
    return {"dec": "%d" % v, "hex": "$%x" % v, "bin": "%" + bin(v)[2:]}[radix]


def norm_msg(m):
    m = re.sub(r"\$[0-9A-Fa-f ]+", "$N", m)
    m = re.sub(r"(unknown function|unknown identifier|unexpected): ?.*", r"\1: <x>", m)
    m = re.sub(r"unexpected '.*'", "unexpected '<x>'", m)
    m = re.sub(r"[0-9]+", "N", m)
    return m[:80]


def mn_group(mn):
    return "bxx" if mn in isa.BRANCHES else mn


def vclass(v):
    if v == 0:
        return "0"
    if v <= 255:
        return "1..255"
    if v <= 65535:
        return "256..65535"
    return ">65535"


def seg_bytes(res):
    segs = res.get("s") or []
    if len(segs) != 1:
        return None
    return bytes.fromhex(segs[0][2])


def judge(acc, kind, src, expected, res, sig_parts, nontriv_key):
    """expected: bytes or None (=REJECT). Returns True when OK."""
    acc.evaluations += 1
    if "panic" in res:
        # panics are C06's business, but an instruction that panics is neither encoded nor rejected
        acc.violation("%s|%s|panic" % (kind, "|".join(sig_parts)), "panic on %r: %s" % (src, res["panic"]),
                      {"src": src, "result": res})
        return False
    diags = res.get("d", [])
    got = seg_bytes(res)
    if expected is None:
        acc.count(kind + ".illegal")
        if not diags:
            acc.violation("%s|%s|accepted-illegal" % (kind, "|".join(sig_parts)),
                          "illegal %r accepted, bytes=%s" % (src, got.hex() if got is not None else None),
                          {"src": src, "expected": "REJECT", "result": res})
            return False
    else:
        acc.count(kind + ".legal")
        acc.nontriv(nontriv_key)
        if diags:
            acc.violation("%s|%s|rejected-legal|%s" % (kind, "|".join(sig_parts), norm_msg(diags[0][1])),
                          "legal %r rejected: %s (expected %s)" % (src, diags[0], expected.hex()),
                          {"src": src, "expected": expected.hex(), "result": res})
            return False
        if got != expected:
            acc.violation("%s|%s|wrong-bytes" % (kind, "|".join(sig_parts)),
                          "%r assembled to %s, ISA says %s" % (src, got.hex() if got is not None else None, expected.hex()),
                          {"src": src, "expected": expected.hex(), "result": res})
            return False
    return True


def ask_batch(probe, srcs, pc=BASE):
    out = []
    for i in range(0, len(srcs), 400):
        r = probe.ask({"batch": srcs[i:i + 400], "pc": pc})
        if "results" not in r:
            out.extend([{"harness": r}] * len(srcs[i:i + 400]))
        else:
            out.extend(r["results"])
    return out


# ---------------------------------------------------------------- case generators (deterministic)
def rows_cases():
    for mn in isa.MNEMONICS:
        for form in isa.FORM_NAMES:
            if form == "none":
                yield ("row", mn, form, None, "dec", isa.render(mn, form, ""))
                continue
            for v in VALUES:
                for radix in ("dec", "hex", "bin"):
                    yield ("row", mn, form, v, radix, isa.render(mn, form, lit(v, radix)))


def beyond_cases():
    for mn in isa.MNEMONICS:
        if mn in isa.BRANCHES:
            continue
        for form in isa.FORM_NAMES:
            if form == "none":
                continue
            for v in BEYOND:
                yield ("beyond", mn, form, v, "hex", isa.render(mn, form, lit(v, "hex")))


def beyond_expect(mn, form, v):
    """Operand above 65535. The property fixes: never the zero-page/one-byte encoding (the value is not 0..255), immediates
    and one-byte-only forms are rejected, undefined combinations are rejected. Where an absolute form exists the suite pins
    16-bit wrap-around (`lda $ffff+3`), so either a rejection or the absolute encoding of the low 16 bits is accepted.
    Returns (must_reject, allowed_bytes_or_None)."""
    modes = isa.ISA[mn]
    short, long_ = isa.FORMS[form]
    if form == "imm" or long_ not in modes:
        return True, None
    return False, bytes([modes[long_], v & 0xFF, (v >> 8) & 0xFF])


def ood_cases():
    for mn in isa.MNEMONICS:
        for form in isa.FORM_NAMES:
            if form == "none":
                continue
            for v in OUT_OF_DOMAIN:
                yield ("ood", mn, form, v, "dec", isa.render(mn, form, lit(v, "dec")))


def branch_cases():
    for mn in isa.BRANCHES:
        for d in range(-140, 141):
            # literal target, single instruction at BASE
            yield ("br-lit", mn, d, "%s $%x" % (mn, BASE + 2 + d))
            yield ("br-star", mn, d, "%s * + 2 + %d" % (mn, d) if d >= 0 else "%s * + 2 - %d" % (mn, -d))
            if d <= -2:
                n = -d - 2
                pad = "nop\n" * n
                yield ("br-back", mn, d, "l:\n%s%s l" % (pad, mn))
                yield ("br-back-scope", mn, d, "{\n%s%s -\n}" % (pad, mn))
            if d >= 0:
                pad = ".byte 0\n" * d
                yield ("br-fwd", mn, d, "%s l\n%sl:" % (mn, pad))
                yield ("br-fwd-scope", mn, d, "{\n%s +\n%s}" % (mn, pad))
            # the same inside segments that run at another address than where they are stored (labels are run addresses)
            if d in (-140, -129, -128, -127, -64, -3, -2, 0, 1, 64, 126, 127, 128, 129, 140):
                for start, pc in ((0x1000, 0x1010), (0x1000, 0x4000), (0xC000, 0x0200), (0x0810, 0x00F0)):
                    hdr = '.define segment {\n name = "r"\n start = $%x\n pc = $%x\n}\n' % (start, pc)
                    if d <= -2:
                        yield ("br-back-relocated", mn, d, hdr + "l:\n%s%s l" % ("nop\n" * (-d - 2), mn))
                    if d >= 0:
                        yield ("br-fwd-relocated", mn, d, hdr + "%s l\n%sl:" % (mn, ".byte 0\n" * d))
                        yield ("br-star-relocated", mn, d, hdr + "%s * + 2 + %d" % (mn, d))


def stmt_forms(reduced):
    """Statement forms used as neighbours: (key, text, encoder(pc)->bytes|None, position_independent)"""
    forms = []
    vals = [0x10] if reduced else [0x10, 0x1234]
    for mn in isa.MNEMONICS:
        for form in isa.FORM_NAMES:
            if form == "none":
                forms.append(((mn, form, None), isa.render(mn, form, ""), (lambda pc, mn=mn: isa.encode(mn, "none", 0, pc))))
                continue
            for v in vals:
                if mn in isa.BRANCHES:
                    if form == "v" and v == 0x10:
                        forms.append(((mn, form, "*"), mn + " *", (lambda pc, mn=mn: isa.encode(mn, "v", pc, pc))))
                        continue
                forms.append(((mn, form, v), isa.render(mn, form, lit(v, "hex")),
                              (lambda pc, mn=mn, form=form, v=v: isa.encode(mn, form, v, pc))))
    forms.append((("label", "", None), "lbl:", lambda pc: b""))
    forms.append(((".byte", "", None), ".byte $55", lambda pc: b"\x55"))
    forms.append(((".word", "", None), ".word $1234", lambda pc: b"\x34\x12"))
    forms.append(((".text", "", None), '.text "a"', lambda pc: b"a"))
    forms.append((("scope", "", None), "{ nop }", lambda pc: b"\xea"))
    return forms


def representative_forms():
    """One representative mnemonic per (mode-set class), all forms: the reduced pair space for the quick tier."""
    seen = {}
    for mn in isa.MNEMONICS:
        key = tuple(sorted(isa.ISA[mn]))
        seen.setdefault(key, mn)
    reps = set(seen.values()) | OPTIONAL_OPERAND
    return [f for f in stmt_forms(True) if f[0][0] in reps or f[0][0] in ("label", ".byte", ".word", ".text", "scope")]


def shard(idx, n, seed, tier, params):
    acc = Acc()
    probe = Probe()
    t_end = time.time() + params["budget"]

    # (1) rows
    cases = [c for i, c in enumerate(rows_cases()) if i % n == idx]
    res = ask_batch(probe, [c[5] for c in cases])
    for c, r in zip(cases, res):
        _, mn, form, v, radix, src = c
        exp = isa.encode(mn, form, v if v is not None else 0, BASE)
        judge(acc, "row", src, exp, r, [mn_group(mn), form, vclass(v or 0)], ("row", mn, form, v))
        acc.cover("row_mn_form", "%s %s" % (mn, form))
    acc.sample({"kind": "row", "src": cases[0][5], "result": res[0]}, cap=1)

    # out-of-domain observation (never judged)
    cases = [c for i, c in enumerate(ood_cases()) if i % n == idx]
    res = ask_batch(probe, [c[5] for c in cases])
    for c, r in zip(cases, res):
        acc.count("ood.observed")
        acc.count("ood.accepted" if not r.get("d") and "panic" not in r else "ood.rejected_or_panic")

    # operands beyond 16 bits (partially judged)
    cases = [c for i, c in enumerate(beyond_cases()) if i % n == idx]
    res = ask_batch(probe, [c[5] for c in cases])
    for c, r in zip(cases, res):
        _, mn, form, v, radix, src = c
        must_reject, allowed = beyond_expect(mn, form, v)
        acc.evaluations += 1
        acc.count("beyond.judged")
        if "panic" in r:
            acc.violation("beyond|%s|%s|panic" % (mn_group(mn), form), "panic on %r: %s" % (src, r["panic"]), {"src": src, "result": r})
            continue
        got = seg_bytes(r)
        rejected = bool(r.get("d"))
        if rejected:
            acc.count("beyond.rejected")
            continue
        if must_reject or got != allowed:
            acc.violation("beyond|%s|%s|%s" % (mn_group(mn), form, "accepted-illegal" if must_reject else "wrong-bytes"),
                          "%r (operand above 65535) assembled to %s; expected %s" % (
                              src, got.hex() if got is not None else None, "a rejection" if must_reject else "a rejection or " + allowed.hex()),
                          {"src": src, "result": r, "expected": None if must_reject else allowed.hex()})
        else:
            acc.count("beyond.wrapped_absolute")
            acc.nontriv(("beyond", mn, form, v))

    # (2) branches
    cases = [c for i, c in enumerate(branch_cases()) if i % n == idx]
    res = ask_batch(probe, [c[3] for c in cases])
    for c, r in zip(cases, res):
        kind, mn, d, src = c
        legal = -128 <= d <= 127
        op = isa.ISA[mn]["rel"]
        if kind in ("br-lit", "br-star"):
            exp = bytes([op, d & 0xFF]) if legal else None
        elif kind == "br-star-relocated":
            exp = bytes([op, d & 0xFF]) if legal else None
        elif kind in ("br-back", "br-back-relocated"):
            exp = b"\xea" * (-d - 2) + bytes([op, d & 0xFF]) if legal else None
        elif kind == "br-back-scope":
            exp = b"\xea" * (-d - 2) + bytes([op, d & 0xFF]) if legal else None
        else:
            exp = bytes([op, d & 0xFF]) + b"\x00" * d if legal else None
        dclass = "in-range" if legal else "out-of-range"
        judge(acc, kind, src, exp, r, ["bxx", dclass], (kind, mn, d))
        acc.cover("branch_distances", d)
    if cases:
        acc.sample({"kind": cases[-1][0], "src": cases[-1][3][-60:], "result": res[-1]}, cap=2)

    # operand shapes that no addressing mode has (doubly indexed, index on an immediate, ...): rejected for every mnemonic
    odd = []
    for mn in isa.MNEMONICS:
        for shape in ("(%s,x),y", "(%s,x),x", "(%s,y),y", "(%s,y),x", "#%s,x", "#%s,y", "%s,x,y", "%s,y,x", "((%s),y)", "(%s,x,y)", "(%s),y,x", "#(%s),y", "#(%s,x)"):
            for v in ("$10", "$1234"):
                odd.append((mn, shape, "%s %s" % (mn, shape % v)))
    odd = [c for i, c in enumerate(odd) if i % n == idx]
    res = ask_batch(probe, [c[2] for c in odd])
    for c, r in zip(odd, res):
        judge(acc, "odd-shape", c[2], None, r, [mn_group(c[0]), c[1]], ("odd", c[0], c[1]))

    # a branch to literal 0 from far away, and other far literal targets
    far = []
    for mn in isa.BRANCHES:
        for tgt in (0, 1, 0x10, 0xFF, 0x100, 0x1000, 0x3000, 0xFFFF):
            far.append((mn, tgt, "%s %d" % (mn, tgt)))
    far = [c for i, c in enumerate(far) if i % n == idx]
    res = ask_batch(probe, [c[2] for c in far])
    for c, r in zip(far, res):
        judge(acc, "br-far", c[2], None, r, ["bxx", "target=" + vclass(c[1])], ("far", c[0], c[1]))

    # (3) pairs
    if tier == "thorough":
        forms = stmt_forms(False)
    else:
        forms = representative_forms()
    nf = len(forms)
    total_pairs = nf * nf
    acc.count("pair.space", 0)
    pair_idx = [k for k in range(idx, total_pairs, n)]
    if tier != "thorough":
        # plus a seeded sample of the full space
        full = stmt_forms(False)
        rng = rng_for(seed, "c01pairs", idx)
        extra = [(rng.randrange(len(full)), rng.randrange(len(full))) for _ in range(params["pair_sample"] // n)]
    else:
        full, extra = forms, []

    def run_pairs(form_list, pairs):
        batch, meta = [], []
        for (ia, ib) in pairs:
            for sname, sep in SEPS.items():
                a, b = form_list[ia], form_list[ib]
                batch.append(a[1] + sep + b[1])
                meta.append((a, b, sname))
            if len(batch) >= 1600:
                yield from zip(meta, ask_batch(probe, batch))
                batch, meta = [], []
        if batch:
            yield from zip(meta, ask_batch(probe, batch))

    def pair_iter():
        yield from run_pairs(forms, ((k // nf, k % nf) for k in pair_idx))
        yield from run_pairs(full, extra)

    done = 0
    for (a, b, sname), r in pair_iter():
        if time.time() > t_end:
            acc.count("pair.budget_cut")
            break
        ea = a[2](BASE)
        eb = b[2](BASE + len(ea)) if ea is not None else None
        exp = ea + eb if (ea is not None and eb is not None) else None
        if a[0][0] == "label" and b[0][0] == "label":
            continue  # the same label twice is a redefinition question (C04), not an encoding question
        src = a[1] + SEPS[sname] + b[1]
        sig = ["Aform=%s" % (a[0][1] or a[0][0]), "Aopt=%s" % (a[0][0] in OPTIONAL_OPERAND),
               "Bparen=%s" % b[1].split(" ", 1)[-1].startswith("("), "Bkind=%s" % (b[0][0] if not b[0][1] else "instr")]
        judge(acc, "pair", src, exp, r, sig, ("pair", a[0], b[0], sname))
        done += 1
    acc.count("pair.done", done)
    acc.sample({"kind": "pair", "forms_in_pair_space": nf, "example": forms[3][1] + " / " + forms[-2][1]}, cap=3)

    # (4) random operand values / simple expressions
    rng = rng_for(seed, "c01rand", idx)
    batch, meta = [], []
    for _ in range(params["random"] // n):
        mn = rng.choice(isa.MNEMONICS)
        form = rng.choice(isa.FORM_NAMES[1:])
        v = rng.choice([rng.randrange(0, 256), rng.randrange(0, 65536), rng.choice([254, 255, 256, 257, 65535])])
        style = rng.randrange(4)
        if style == 0:
            txt = lit(v, rng.choice(["dec", "hex", "bin"]))
        elif style == 1:
            a = rng.randrange(0, v + 1)
            txt = "%s + %s" % (lit(a, "hex"), lit(v - a, "dec"))
        elif style == 2:
            a = rng.randrange(v, 65536)
            txt = "%s - %s" % (lit(a, "dec"), lit(a - v, "hex"))
        else:
            txt = "(%s)" % lit(v, "hex") if form in ("imm", "v,x", "v,y") else lit(v, "hex")
            if txt.startswith("(") and form != "imm":
                txt = "0 + " + txt
        pc = rng.choice([0x10, 0x80, 0x2000, 0xC000])
        src = isa.render(mn, form, txt)
        if mn in isa.BRANCHES:
            pc = max(0, min(0xFFF0, v - 2 + rng.randrange(-140, 141)))
        batch.append((pc, src))
        meta.append((mn, form, v, pc, src))
    by_pc = {}
    for (pc, src), m in zip(batch, meta):
        by_pc.setdefault(pc, []).append((src, m))
    for pc, items in by_pc.items():
        res = ask_batch(probe, [s for s, _ in items], pc=pc)
        for (src, m), r in zip(items, res):
            mn, form, v, pc, _ = m
            exp = isa.encode(mn, form, v, pc)
            judge(acc, "rand", "pc=$%x: %s" % (pc, src), exp, r, [mn_group(mn), form, vclass(v)], ("rand", mn, form, v, pc))
    # (5) the same source statement emitted several times (macro body, loop body) with operands on both sides of the
    #     zero-page/absolute boundary, and operands that are symbols - also symbols spelled like a register
    rng = rng_for(seed, "c01reemit", idx)
    srcs, meta = [], []
    zpabs = [(mn, form) for mn in isa.MNEMONICS if mn not in isa.BRANCHES for form in ("v", "v,x", "v,y")
             if isa.encode(mn, form, 0x10, BASE) is not None and isa.encode(mn, form, 0x1234, BASE) is not None]
    anyform = [(mn, form) for mn in isa.MNEMONICS if mn not in isa.BRANCHES for form in isa.FORM_NAMES[1:] if isa.encode(mn, form, 0x10, BASE) is not None]
    for _ in range(params["reemit"] // n):
        style = rng.randrange(4)
        if style == 0:
            mn, form = rng.choice(zpabs)
            vals = [rng.choice([rng.randrange(0, 256), rng.randrange(256, 65536), 255, 256]) for _ in range(rng.randrange(2, 5))]
            pname = rng.choice(["v", "addr", "a", "x", "y", "A", "p"])
            src = ".macro put(%s) { %s }\n" % (pname, isa.render(mn, form, pname)) + "\n".join("put(%s)" % lit(v, rng.choice(["dec", "hex"])) for v in vals)
            exp = [isa.encode(mn, form, v, BASE) for v in vals]
            sig = [mn_group(mn), form, "macro-reinvoked"]
        elif style == 1:
            mn, form = rng.choice(zpabs)
            start, cnt = rng.randrange(250, 256), rng.randrange(2, 9)
            down = rng.random() < 0.5
            expr = "%d - index" % (start + cnt) if down else "%d + index" % start
            vals = [(start + cnt - i) if down else (start + i) for i in range(cnt)]
            src = ".loop %d { %s }" % (cnt, isa.render(mn, form, expr))
            exp = [isa.encode(mn, form, v, BASE) for v in vals]
            sig = [mn_group(mn), form, "loop-reemitted"]
        else:
            mn, form = rng.choice(anyform)
            name = rng.choice(["a", "x", "y", "A", "X", "Y", "a1", "ax", "s", "sp", "pc", "p", "acc"])
            v = rng.choice([rng.randrange(0, 256), rng.randrange(256, 65536), 255, 256])
            if isa.encode(mn, form, v, BASE) is None:
                v = rng.randrange(0, 256)
            if style == 2:
                src = ".const %s = %s\n%s" % (name, lit(v, "hex"), isa.render(mn, form, name))
                exp = [isa.encode(mn, form, v, BASE)]
                sig = [mn_group(mn), form, "symbol-operand|%s" % ("register-like" if name.lower() in ("a", "x", "y") else "plain")]
            else:
                # a label behind the instruction: its address is the operand (absolute form where there is one)
                ins_len = len(isa.encode(mn, form, 0x2003, BASE) or b"")
                if ins_len != 3:
                    continue
                src = "%s\n%s: nop" % (isa.render(mn, form, name), name)
                exp = [isa.encode(mn, form, BASE + 3, BASE), bytes([0xEA])]
                sig = [mn_group(mn), form, "label-operand|%s" % ("register-like" if name.lower() in ("a", "x", "y") else "plain")]
        if style == 3 and rng.random() < 0.5:
            # a literal with a unary operator as the whole operand: `lda #-1` is A9 FF (the suite pins `lda #1-2`), `#!0` is 1
            imm = [mn for mn in isa.MNEMONICS if isa.encode(mn, "imm", 1, BASE) is not None]
            mn = rng.choice(imm)
            nv = rng.randrange(1, 129)
            radix = rng.choice(["dec", "hex", "bin"])
            kind = rng.choice(["neg", "not0", "not", "negneg"])
            if kind == "neg":
                src, val = "%s #-%s" % (mn, lit(nv, radix)), (256 - nv) & 255
            elif kind == "not0":
                src, val = "%s #!%s" % (mn, lit(0, radix)), 1
            elif kind == "not":
                src, val = "%s #!%s" % (mn, lit(nv, radix)), 0
            else:
                src, val = "%s #-(-%s)" % (mn, lit(nv, radix)), nv
            exp = [isa.encode(mn, "imm", val, BASE)]
            sig = [mn_group(mn), "imm", "unary-on-literal|%s" % kind]
        if any(e is None for e in exp):
            continue
        srcs.append(src)
        meta.append((b"".join(exp), sig))
    for (src, (exp, sig)), r in zip(zip(srcs, meta), ask_batch(probe, srcs)):
        judge(acc, "reemit", src, exp, r, sig, ("reemit", src))
    probe.close()
    return acc


def main(tier, seed):
    t0 = time.time()
    params = {"budget": 100 if tier == "quick" else 1500, "pair_sample": 150000 if tier == "quick" else 0,
              "random": 20000 if tier == "quick" else 200000, "reemit": 12000 if tier == "quick" else 120000}
    acc = run_sharded(shard, seed, tier, params)
    exhaustive = acc.counts.get("pair.budget_cut", 0) == 0
    return finish(
        "C01", tier, seed, acc, t0,
        rule="rows: all 56 mnemonics x 10 syntactic forms x 11 boundary values x 3 radixes (complete); branches: 8 mnemonics x "
             "distance -140..140 x {literal, *-relative, label before/after, scope -/+} (complete); pairs: ordered pairs of statement "
             "forms x 4 separators (thorough: all 1125 forms squared; quick: representative mnemonics squared + seeded sample of "
             "the full space); random operand values/expressions at several base addresses; re-emitted statements: a macro body invoked with, and a loop body "
             "indexed over, operands on both sides of 255/256, and operands that are constants or labels (also named like a register: a, x, y). Non-trivial = a distinct LEGAL case "
             "(exact bytes are compared); illegal cases only need a diagnostic.",
        assumptions=["negative operands are observed but not judged (the suite pins `lda #1-2` = A9 FF); operands above 65535 are judged partially: immediates, one-byte-only forms and undefined combinations must be rejected, the zero-page encoding must never be chosen, and where an absolute form exists either a rejection or the pinned 16-bit wrap-around (`lda $ffff+3` = AD 02 00) is accepted",
                     "isa6502.py (151 opcodes, written from the ISA) is trusted"],
        extra={"exhaustive": bool(exhaustive), "legal_rows": len(isa.legal_rows())})
