"""C17 - format-document edits reproduce the formatter (real `mos lsp` over stdio)."""
import os
import shutil
import tempfile
import time

from ..common import Acc, Probe, finish, rng_for, run_sharded
from ..client.lsp import LspServer, apply_edits, uri_of
from ..gen import prog as P
from ..gen import render

KNOBS = {"p_import": 0.0, "max_bytes": 200, "top_stmts": 8, "p_test": 0.35}
NONASCII = ['.text "é€"', '.text "𝄞 clef"', "nop // ünï 𝄞 cödé", "/* 𝄞𝄞 */ nop", '.text "a" // é', "lda #1 /* € */ // 𝄞"]


def utf16_len(s):
    return sum(2 if ord(c) > 0xFFFF else 1 for c in s)


def check_edits(text, edits):
    """None or a description of what is malformed: out of range, unordered, overlapping."""
    lines = text.split("\n")
    prev_end = (0, 0)
    for e in edits:
        s, t = e["range"]["start"], e["range"]["end"]
        for p in (s, t):
            if p["line"] >= len(lines) + 0 and not (p["line"] == len(lines) and p["character"] == 0):
                return "position %r beyond the last line (%d lines)" % (p, len(lines))
            if p["line"] < len(lines) and p["character"] > utf16_len(lines[p["line"]]):
                return "position %r beyond the end of its line (%d UTF-16 units)" % (p, utf16_len(lines[p["line"]]))
        a, b = (s["line"], s["character"]), (t["line"], t["character"])
        if b < a:
            return "range end before start: %r" % (e["range"],)
        if a < prev_end:
            return "edits overlap or are not ordered: %r starts before %r" % (e["range"], prev_end)
        prev_end = b
    return None


class Session:
    def __init__(self):
        self.dir = tempfile.mkdtemp(prefix="mosverif-c17-")
        open(os.path.join(self.dir, "mos.toml"), "w").write("")
        self.path = os.path.join(self.dir, "main.asm")
        open(self.path, "w").write("nop\n")
        self.srv = LspServer(self.dir)
        self.srv.initialize()
        self.srv.did_open(self.path, "nop\n")
        self.version = 1

    def format(self, text, on_type=False, options=None, reopen=False):
        """The buffer reaches the server by didChange, or (reopen) by closing the document and opening it again with this
        text while the file on disk says something else; then the formatting request with the client's options."""
        options = options or {"tabSize": 4, "insertSpaces": True}
        if reopen:
            self.srv.did_close(self.path)
            if reopen == "disk":
                # the file is rewritten on disk while it is closed, then opened with exactly that text
                with open(self.path, "w", newline="") as f:
                    f.write(text)
            self.srv.did_open(self.path, text)
        else:
            self.version += 1
            self.srv.did_change(self.path, text, self.version)
        if on_type:
            return self.srv.request("textDocument/onTypeFormatting", {"textDocument": {"uri": uri_of(self.path)}, "position": {"line": 0, "character": 0}, "ch": "}",
                                                                    "options": options})
        return self.srv.request("textDocument/formatting", {"textDocument": {"uri": uri_of(self.path)}, "options": options})

    def close(self):
        self.srv.kill()
        shutil.rmtree(self.dir, ignore_errors=True)


def shard(idx, n, seed, tier, params):
    acc = Acc()
    probe = Probe()
    rng = rng_for(seed, "c17", idx)
    t_end = time.time() + params["budget"]
    ses = Session()
    try:
        for i in range(params["buffers"] // n):
            if time.time() > t_end:
                acc.count("budget_cut")
                break
            prog = P.generate(rng, KNOBS)
            nonascii = rng.random() < 0.35
            if nonascii:
                body = prog.files["main.asm"]
                for _ in range(rng.randrange(1, 4)):
                    pos = rng.randrange(len(prog.segments) + 1 if prog.has_segments else 0, len(body) + 1)
                    body.insert(pos, P.Stmt("raw", prog.root, text=rng.choice(NONASCII)))
                P.separate(body)
            crlf = rng.random() < 0.2
            lay = render.Hostile(rng, crlf=crlf) if rng.random() < 0.8 else render.Layout()
            try:
                files, _ = render.render_program(prog, lay)
            except render.SpellError:
                continue
            text = files["main.asm"]
            want = probe.ask({"files": {"main.asm": text}, "ops": ["parse", "format"]})
            if "parse" not in want or want["parse"].get("diags") or isinstance(want.get("format", {}).get("main.asm"), dict) or "format" not in want:
                acc.count("skipped.not-error-free-or-formatter-panic")
                continue
            expected = want["format"]["main.asm"]
            kinds = [("formatting", text)]
            if i % 4 == 0:
                # (also with blank lines / blanks behind the last line, which the formatter removes)
                kinds.append(("already-formatted", expected + (rng.choice(["\n\n", "\n   \n", "  ", "\n\t\n\n", "\n\n\n   "]) if i % 8 == 0 else "")))
            if i % 5 == 0:
                kinds.append(("on-type", text))
            if i % 6 == 0:
                kinds.append(("reopened", text))
            if i % 6 == 3:
                kinds.append(("disk-changed-then-opened", text))
            if i % 7 == 0:
                # formatted lines with CRLF terminators: everything, or a formatted head followed by lines that still need work
                head = expected.replace("\r\n", "\n").replace("\n", "\r\n")
                kinds.append(("already-formatted", head) if rng.random() < 0.5 else
                             ("already-formatted", head + rng.choice(["lda   #1\r\n", "  nop\r\nfoo_zz:   rts\r\n", "nop  //  tail\r\n", ".byte 1,2\n"])))
            for kind, buf in kinds:
                if kind == "already-formatted":
                    # (the formatter is not idempotent everywhere - C13 - so the reference is the formatter's text for THIS buffer)
                    w2 = probe.ask({"files": {"main.asm": buf}, "ops": ["parse", "format"]})
                    if w2.get("parse", {}).get("diags") or not isinstance(w2.get("format", {}).get("main.asm"), str):
                        continue
                    expected = w2["format"]["main.asm"]
                else:
                    expected = want["format"]["main.asm"]
                acc.evaluations += 1
                # the client's own formatting options must not matter: the reference is `mos format` with default options
                options = {"tabSize": rng.choice([1, 2, 3, 4, 4, 8]), "insertSpaces": rng.random() < 0.7}
                if rng.random() < 0.3:
                    options.update({"trimTrailingWhitespace": rng.random() < 0.5, "insertFinalNewline": rng.random() < 0.5, "trimFinalNewlines": rng.random() < 0.5})
                r = ses.format(buf, on_type=(kind == "on-type"), options=options, reopen=("disk" if kind == "disk-changed-then-opened" else kind == "reopened"))
                w = {"buffer": buf, "kind": kind, "options": options, "response": r, "expected": expected}
                cls = "%s|%s|%s" % ("on-type" if kind == "on-type" else "formatting", "non-ascii" if any(ord(c) > 127 for c in buf) else "ascii", "crlf" if "\r\n" in buf else "lf")
                if r.get("busy"):
                    acc.inconc("language server still computing after the extended watchdog")
                    break
                if "dead" in r or "timeout" in r:
                    acc.violation("server-died|%s" % cls, "no response (%r); stderr: %s" % (r, ses.srv.stderr[-200:].decode("utf8", "replace")), w)
                    ses.close()
                    ses = Session()
                    continue
                edits = r.get("result")
                if edits is None:
                    # the server declines to format when the project has diagnostics (e.g. a semantic error): nothing to judge
                    acc.count("declined")
                    continue
                acc.count("answers.%s" % kind)
                acc.count("edits", len(edits))
                bad = check_edits(buf, edits)
                if bad:
                    acc.violation("malformed-edits|%s" % cls, bad, w)
                    continue
                try:
                    got = apply_edits(buf, edits)
                except ValueError as e:
                    acc.violation("malformed-edits|%s" % cls, str(e), w)
                    continue
                # (exactly: `mos format` writes LF line terminators on this platform, so no CR of a CRLF buffer may survive
                # outside a block comment, where the formatter keeps the text verbatim)
                if got != expected:
                    k = next((j for j in range(min(len(got), len(expected))) if got[j] != expected[j]), min(len(got), len(expected)))
                    acc.violation("edits-do-not-reproduce-formatter|%s" % cls, "applied edits differ from the formatter's text at offset %d: %r vs %r" % (k, got[max(0, k - 20):k + 30], expected[max(0, k - 20):k + 30]),
                                  dict(w, applied=got))
                    continue
                acc.nontriv(buf, kind)
            if i == 0:
                acc.sample({"buffer": text[:300], "edits": (r.get("result") or [])[:3]})
    finally:
        ses.close()
        probe.close()
    return acc


def main(tier, seed):
    t0 = time.time()
    params = {"buffers": 12000 if tier == "quick" else 200000, "budget": 80 if tier == "quick" else 1200}
    acc = run_sharded(shard, seed, tier, params)
    return finish(
        "C17", tier, seed, acc, t0,
        rule="error-free single-file buffers from ProgGen in hostile or plain layout, 35% with non-ASCII text in comments and strings "
             "(BMP and astral characters), 20% CRLF, every 4th also in already formatted form (every 7th with CRLF terminators, half of those "
             "followed by lines that still need formatting), every 5th via onTypeFormatting; sent to a real `mos lsp` (didChange, or "
             "didClose + didOpen while the file on disk says something else, or the file rewritten on disk while closed and then opened "
             "with that text; then textDocument/formatting). The returned edits must be in range (UTF-16 columns), ordered and "
             "non-overlapping, and applied to the buffer in the standard way they must yield exactly the text the formatter produces "
             "for that buffer with default options (library entry point; its equality with `mos format` is C12's CLI slice). "
             "Non-trivial = distinct (buffer, request kind) whose edits reproduced the formatter.",
        assumptions=["edits are applied relative to the original text with UTF-16 columns, as the LSP specification prescribes"])
