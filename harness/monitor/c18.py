"""C18 - unit-test verdicts reflect the emulated machine state (real `mos test`, judged by a reference 6502 model)."""
import re
import time

from ..common import Acc, TempProject, finish, rng_for, run_mos, run_sharded
from ..gen import testgen

RESULT = re.compile(r"^test '(?P<name>[^']+)' \.\.\. (?P<res>ok|failed)", re.M)
DIAG = re.compile(r"^(?P<file>[^:\n ]+):(?P<line>\d+):(?P<col>\d+): error: (?P<msg>.*)$", re.M)


def gen_program(rng):
    ntests = rng.randrange(1, 5)
    two_banks = rng.random() < 0.3
    lines = []
    if two_banks:
        lines += ['.define bank {', '    name = "b0"', '}', '.define bank {', '    name = "b1"', '}',
                  '.define segment {', '    name = "code"', '    start = $2000', '    bank = "b0"', '}',
                  '.define segment {', '    name = "other"', '    start = $4000', '    bank = "b1"', '}',
                  '.segment "other" {', '    .byte $55, $66, $77', '}']
        if rng.random() < 0.5:
            # code of the OTHER bank at the very addresses the tests run at, with assertions that are false: a test only meets
            # the assertions of its own bank
            lines += ['.define segment {', '    name = "shadow"', '    start = $2000', '    bank = "b1"', '}', '.segment "shadow" {']
            for _ in range(rng.randrange(3, 12)):
                lines += ["    nop", '    .assert 1 == 2 "assertion of the other bank"']
            lines += ["}"]
        lines += ['.segment "code"']
    # the called subroutines in a segment of their own that lies BELOW the code and is written behind (or in front of) the test:
    # assertions are then not collected in ascending address order
    use_low = rng.random() < 0.3
    if use_low and not two_banks:
        # (half of them run somewhere else than they are stored: the test starts where the code runs)
        reloc = ['    pc = $8000'] if rng.random() < 0.5 else []
        lines += ['.define segment {', '    name = "code"', '    start = $2000'] + reloc + ['}', '.define segment {', '    name = "low"', '    start = $1000'] + \
                 (['    pc = $6000'] if reloc and rng.random() < 0.5 else []) + ['}', '.segment "code"']
    elif use_low:
        k = lines.index('.segment "other" {')
        lines[k:k] = ['.define segment {', '    name = "low"', '    start = $1000', '    bank = "b0"', '}']
    lines.append(".const shared = %d" % rng.randrange(256))
    tests = []
    for t in range(ntests):
        for _ in range(20):
            body, nslots = testgen.gen_body(rng, t)
            end, visits = testgen.observe_slots(body)
            if end[0] == "brk":
                break
        conds = testgen.choose_conditions(rng, visits, nslots)
        messages = {s: "msg %d of t%d" % (s, t) for s in range(nslots) if rng.random() < 0.4}
        end, state, m = testgen.expected_outcome(body, conds)
        name = "t%d" % t
        blines, where = testgen.render_body(body, conds, messages)
        if two_banks and rng.random() < 0.7:
            # the other bank's bytes must not be visible: RAM holds only the bank of the test
            k = blines.index("    brk")
            blines.insert(k, "    .assert ram($4000) == 0 && ram16($4001) == 0")
            where = {s: (l + 1 if l >= k else l) for s, l in where.items()}
        k = blines.index("    brk")
        absolute = {}
        if len(blines) > k + 1 and use_low and rng.random() < 0.8:
            subs_first = rng.random() < 0.3
            block = ['.segment "low" {'] + blines[k + 1:] + ["}"]
            if subs_first:
                base_subs = len(lines) + 1
                lines.extend(block)
            lines.append('.test "%s" {' % name)
            base = len(lines)
            lines.extend(blines[:k + 1])
            if not subs_first:
                lines.append("}")
                base_subs = len(lines) + 1
                lines.extend(block[:-1])        # the closing brace of the segment block is the `}` appended below
            absolute = {s: (base + l if l <= k else base_subs + l - (k + 1)) for s, l in where.items()}
        elif len(blines) > k + 1 and rng.random() < 0.3:
            # the subroutines in front of the test instead of behind its BRK: their assertions are emitted before the test is
            base_subs = len(lines)
            lines.extend(blines[k + 1:])
            lines.append('.test "%s" {' % name)
            base = len(lines)
            lines.extend(blines[:k + 1])
            absolute = {s: (base + l if l <= k else base_subs + l - (k + 1)) for s, l in where.items()}
        else:
            lines.append('.test "%s" {' % name)
            base = len(lines)
            lines.extend(blines)
            absolute = {s: base + l for s, l in where.items()}
        lines.append("}")
        exp = {"name": name, "pass": end[0] == "brk", "end": end}
        if end[0] == "assert-failed":
            s = end[1]
            line = absolute[s]
            text = lines[line]
            exp["line"] = line + 1
            exp["col"] = text.index(".assert ") + len(".assert ") + 1
            exp["msg"] = messages.get(s) or "assertion failed: " + testgen.render_cond(conds[s])
            exp["visit"] = state["per_slot"][s]
        exp["asserts_evaluated"] = state.get("visits", 0)
        exp["revisits"] = sum(1 for v in state.get("per_slot", {}).values() if v > 1)
        tests.append(exp)
    return "\n".join(lines) + "\n", tests, two_banks


WITNESS_JOIN = """.test "w" {
    lda #1
    cmp #1
    beq skip
    lda #2
    .assert cpu.a == 2
skip:
    nop
    brk
}
"""


def check_witnesses(acc):
    """The assertion is not on the executed path (the branch is taken), so the test passes."""
    acc.evaluations += 1
    with TempProject({"main.asm": WITNESS_JOIN}, "") as tp:
        r = run_mos(["--no-color", "-e", "Short", "test"], tp.dir)
    got = {m.group("name"): m.group("res") for m in RESULT.finditer(r["err"] + "\n" + r["out"])}
    if got.get("w") == "failed":
        acc.violation("assert-before-join-point-fires-on-the-other-path", "an .assert at the end of a skipped block fires when the branch target behind it is reached",
                      {"main.asm": WITNESS_JOIN, "stdout": r["out"], "stderr": r["err"]})
    elif got.get("w") != "ok":
        acc.inconc("witness did not run: %s" % (r["out"] + r["err"])[-200:])


def check_many_failures(acc, count):
    """The exit status is non-zero however many tests fail (a status is one byte: 256 failures must not read as success)."""
    acc.evaluations += 1
    src = "".join('.test "t%d" {\n    lda #%d\n    .assert cpu.a == %d\n    brk\n}\n' % (i, i % 256, (i + 1) % 256) for i in range(count))
    with TempProject({"main.asm": src}, "") as tp:
        r = run_mos(["--no-color", "-e", "Short", "test"], tp.dir, timeout=300)
    if r["timeout"] or r["rc"] in (96, 97, 101) or (r["rc"] or 0) < 0:
        acc.inconc("%d failing tests: abnormal exit %s" % (count, r["rc"]))
        return
    got = [m.group("res") for m in RESULT.finditer(r["err"] + "\n" + r["out"])]
    acc.count("many_failures.tests_reported", len(got))
    if got.count("failed") != count:
        acc.violation("wrong-verdict|expected-fail|many-tests", "%d failing tests: %d reported as failed" % (count, got.count("failed")), {"tests": count, "stderr": r["err"][-600:]})
    elif r["rc"] == 0:
        acc.violation("exit-status|zero-with-failures|%d-failures" % count, "exit status 0 with %d failing tests" % count, {"tests": count, "main.asm": src[:300], "stderr": r["err"][-300:]})
    else:
        acc.nontriv("many-failures", count)


def shard(idx, n, seed, tier, params):
    acc = Acc()
    rng = rng_for(seed, "c18", idx)
    t_end = time.time() + params["budget"]
    if idx == 0:
        check_witnesses(acc)
    if idx == 1 % n:
        check_many_failures(acc, 256)
    if tier == "thorough" and idx == 2 % n:
        check_many_failures(acc, 512)
    for i in range(params["programs"] // n):
        if time.time() > t_end:
            acc.count("budget_cut")
            break
        src, tests, two_banks = gen_program(rng)
        if any(t["end"][0] not in ("brk", "assert-failed") for t in tests):
            acc.count("generator.unbounded")
            continue
        acc.evaluations += 1
        with TempProject({"main.asm": src}, "") as tp:
            r = run_mos(["--no-color", "-e", "Short", "test"], tp.dir)
        w = {"main.asm": src, "expected": tests, "exit": r["rc"], "stdout": r["out"][-4000:], "stderr": r["err"][-3000:]}
        if r["timeout"] or r["rc"] in (96, 97, 101) or (r["rc"] or 0) < 0:
            acc.inconc("abnormal exit %s: %s" % (r["rc"], r["err"][-150:]))
            continue
        log = r["err"] + "\n" + r["out"]      # the verdict lines are log output (stderr), the diagnostics go to stdout
        got = {m.group("name"): m.group("res") for m in RESULT.finditer(log)}
        # the diagnostics are written through another (buffered) stream than the log lines: they are matched to the failed tests by order
        failed_in_order = [m.group("name") for m in RESULT.finditer(log) if m.group("res") == "failed"]
        dl = [(int(m.group("line")), int(m.group("col")), m.group("msg").strip()) for m in DIAG.finditer(r["out"])]
        diags = dict(zip(failed_in_order, dl)) if len(dl) == len(failed_in_order) else {}
        acc.nontriv(src)
        acc.count("programs.two_banks" if two_banks else "programs.one_bank")
        bad = False
        for t in tests:
            acc.count("tests.expected_pass" if t["pass"] else "tests.expected_fail")
            acc.count("assertions_evaluated_by_model", t["asserts_evaluated"])
            acc.count("assertion_slots_visited_more_than_once", t["revisits"])
            if not t["pass"]:
                acc.count("failures_on_first_visit" if t["visit"] == 1 else "failures_on_a_later_visit")
            res = got.get(t["name"])
            if res is None:
                acc.violation("verdict-missing", "no verdict line for test %s" % t["name"], w)
                bad = True
                break
            if (res == "ok") != t["pass"]:
                later = (not t["pass"]) and t["visit"] > 1
                acc.violation("wrong-verdict|expected-%s|%s" % ("pass" if t["pass"] else "fail", "false-only-on-a-later-visit" if later else "first-visit"),
                              "test %s reported %s, the model says %s (%s)" % (t["name"], res, "pass" if t["pass"] else "fail at line %s visit %s" % (t.get("line"), t.get("visit")), t["end"]), w)
                bad = True
                break
            if not t["pass"]:
                d = diags.get(t["name"])
                if d is None:
                    acc.violation("failure-without-location", "failed test %s has no located diagnostic" % t["name"], w)
                    bad = True
                    break
                if (d[0], d[1]) != (t["line"], t["col"]) or d[2] != t["msg"]:
                    acc.violation("wrong-failure-report|%s" % ("location" if (d[0], d[1]) != (t["line"], t["col"]) else "message"),
                                  "test %s: reported %s, expected %s" % (t["name"], d, (t["line"], t["col"], t["msg"])), w)
                    bad = True
                    break
        if bad:
            continue
        any_failed = any(not t["pass"] for t in tests)
        if (r["rc"] != 0) != any_failed:
            acc.violation("exit-status|%s" % ("zero-with-failures" if any_failed else "nonzero-without-failures"),
                          "exit status %s with %d failing tests" % (r["rc"], sum(1 for t in tests if not t["pass"])), w)
        if i == 0:
            acc.sample({"main.asm": src[:700], "expected": tests[:2], "stdout": r["out"][:300]})
    return acc


def main(tier, seed):
    t0 = time.time()
    params = {"programs": 16000 if tier == "quick" else 300000, "budget": 80 if tier == "quick" else 1200}
    acc = run_sharded(shard, seed, tier, params)
    return finish(
        "C18", tier, seed, acc, t0,
        rule="programs of 1-4 tests; bodies over the modelled subset (loads/stores zp+abs, transfers, inc/dec, logic, binary adc/sbc, "
             "compares, clc/sec, branches, counted loops, forward branches, jsr/rts to subroutines called several times, pha/pla) with "
             "assertion slots anywhere (loop bodies, subroutines, after loops); a dry run of the reference model records the state at "
             "every visit of every slot and conditions (registers, ram(), ram16(), flags as truth values, &&/||, custom messages) are "
             "chosen true on all visits or false on a chosen visit (~40%, possibly only a later one); 30% two-bank layouts assert that "
             "the other bank's bytes are invisible. `mos test` verdicts, failure location/message and exit status must match the "
             "model. Non-trivial = distinct program.",
        assumptions=["cpu6502.py models the subset; flags are only used as truth values (the tree exposes a set flag as its bit value)",
                     "assertions are never placed directly after jmp/rts/brk"])
