"""C16 - go-to-definition, find-references and document highlights agree with the assembler's scoping."""
import time

from ..common import Acc, Probe, finish, rng_for, run_sharded
from . import lspcommon as L


def in_uninvoked_macro(prog):
    """uids of macro scopes whose macro is never invoked from code that analysis-mode assembly visits: such a body is only
    emitted once at the very end, without parameters, so parameters and forward references inside it are not bound."""
    invoked = set()
    ana = L.analysed_stmts(prog)
    for s in prog.all_stmts():
        if s.k == "macrocall" and s.uid in ana:
            invoked.add(s.m.uid)
    return {s.bscope.uid for s in prog.all_stmts() if s.k == "macrodef" and s.uid not in invoked}


def context_of(o, prog, dead_macros):
    d = o["target"]
    ctx = d.kind
    if getattr(prog, "exports", None) and d in prog.exports and o["file"] == "main.asm":
        ctx += "|via-import"
    if o["in_import_stmt"]:
        ctx += "|in-import-statement"
    if "macro" in o["site_kinds"]:
        ctx += "|site-in-macro"
    if "import" in o["site_kinds"]:
        ctx += "|site-in-imported-file"
    return ctx


def double_import_cases(acc, rng, count):
    """A file that is imported more than once (under different aliases): its definitions stand for several symbol instances.
    Every occurrence must lead to the definition in the imported file, and find-references on that definition must return the
    occurrences of all instances."""
    for _ in range(count):
        a = rng.choice(["colour", "width", "speed", "table"]) + str(rng.randrange(10))
        b = rng.choice(["rows", "cols", "mask"]) + str(rng.randrange(10))
        lib = "%s: .byte 7\n%s: .byte 9\n" % (a, b)
        nimp = rng.randrange(2, 4)
        lines, occ_a, occ_b = [], [], []
        aliases = []
        for k in range(nimp):
            al = "al%d_%s" % (k, a)
            aliases.append(al)
            with_b = k == nimp - 1
            lines.append('.import %s as %s%s from "lib.asm"' % (a, al, (", " + b) if with_b else ""))
            occ_a.append((len(lines) - 1, 8))
            if with_b:
                occ_b.append((len(lines) - 1, 8 + len(a) + 4 + len(al) + 2))
        for al in aliases:
            for _ in range(rng.randrange(1, 3)):
                lines.append(rng.choice(["lda %s", "ldx %s", "inc %s,x"]) % al)
                occ_a.append((len(lines) - 1, 4))
        lines.append("ldy %s" % b)
        occ_b.append((len(lines) - 1, 4))
        files = {"lib.asm": lib, "main.asm": "\n".join(lines) + "\n"}
        pr = L.Project(files, open_files=sorted(files))
        try:
            for name, dline, occs in ((a, 0, occ_a), (b, 1, occ_b)):
                acc.evaluations += 1
                w = {"files": files, "symbol": name}
                for (ln, ch) in occs:
                    r = pr.pos_request("textDocument/definition", "main.asm", ln, ch + 1)
                    res = r.get("result") or []
                    if r.get("busy"):
                        acc.inconc("language server still computing after the extended watchdog")
                        break
                    if "dead" in r or "timeout" in r:
                        acc.violation("server-died|definition|double-import", "no answer", dict(w, response=r))
                        return
                    tgt = [(pr.name_of_uri(x["targetUri"]), x["targetSelectionRange"]["start"]["line"], x["targetSelectionRange"]["start"]["character"]) for x in res]
                    if tgt[:1] != [("lib.asm", dline, 0)]:
                        acc.violation("definition-wrong|double-import", "definition of %s at main.asm:%d:%d leads to %s, expected lib.asm:%d:0" % (name, ln, ch, tgt, dline), dict(w, response=r))
                        break
                else:
                    for incl in (True, False):
                        r = pr.pos_request("textDocument/references", "lib.asm", dline, rng.randrange(0, len(name)), {"context": {"includeDeclaration": incl}})
                        got = set((pr.name_of_uri(x["uri"]), x["range"]["start"]["line"], x["range"]["start"]["character"]) for x in (r.get("result") or []))
                        exp = set(("main.asm", ln, ch) for ln, ch in occs) | ({("lib.asm", dline, 0)} if incl else set())
                        if got != exp:
                            acc.violation("references-%s|double-import" % ("missing" if exp - got and not got - exp else "differ"),
                                          "references of %s (%s declaration): missing %s, unexpected %s" % (name, "with" if incl else "without", sorted(exp - got)[:4], sorted(got - exp)[:4]),
                                          dict(w, response=r, expected=sorted(exp)))
                            break
                    else:
                        acc.count("double_import_symbols_ok")
                        acc.nontriv("double-import", files["main.asm"], name)
        finally:
            pr.close()


def shadowed_forward_cases(acc, rng, count):
    """A name used inside a block IN FRONT OF the block's own definition of it, while an outer symbol has the same name, in a
    program that has no other forward reference (so no pass ends with anything unresolved): the use belongs to the inner
    definition - that is what the assembler binds it to - and to nothing else."""
    for _ in range(count):
        nm = rng.choice(["value", "limit", "colour", "ptr"]) + str(rng.randrange(10))
        kind = rng.choice(["const", "label"])
        use = rng.choice(["lda #%s", "ldx #<%s", "ldy #>%s"]) if kind == "const" else rng.choice(["lda %s", "jmp %s", "sta %s,x"])
        blk = rng.choice(["{", "blk_zz: {"]) if rng.random() < 0.7 else "{"
        lines = [".const %s = $11" % nm if kind == "const" else "%s: nop" % nm, blk, "    " + use % nm]
        lines.append("    .const %s = $22" % nm if kind == "const" else "    %s: nop" % nm)
        lines += ["    rts", "}"]
        if rng.random() < 0.5:
            lines.append((use % nm).strip())        # a use of the outer one behind the block
        files = {"main.asm": "\n".join(lines) + "\n"}
        col_use = 4 + (use % nm).index(nm)
        col_inner = 4 + (len(".const ") if kind == "const" else 0)
        col_outer = len(".const ") if kind == "const" else 0
        acc.evaluations += 1
        pr = L.Project(files, open_files=["main.asm"])
        try:
            w = {"files": files, "symbol": nm}
            r = pr.pos_request("textDocument/definition", "main.asm", 2, col_use + 1)
            if "dead" in r or "timeout" in r:
                acc.violation("server-died|definition|shadowed-forward", "no answer", dict(w, response=r))
                continue
            tgt = [(x["targetSelectionRange"]["start"]["line"], x["targetSelectionRange"]["start"]["character"]) for x in (r.get("result") or [])]
            if tgt[:1] != [(3, col_inner)]:
                acc.violation("definition-wrong|shadowed-forward-reference", "the use of %s in front of the block's own definition leads to %s, the assembler binds it to the inner "
                              "definition at 3:%d" % (nm, tgt, col_inner), dict(w, response=r))
                continue
            r2 = pr.pos_request("textDocument/references", "main.asm", 0, col_outer, {"context": {"includeDeclaration": False}})
            got = sorted((x["range"]["start"]["line"], x["range"]["start"]["character"]) for x in (r2.get("result") or []))
            exp = [(6, (use % nm).strip().index(nm))] if len(lines) == 7 else []
            if got != exp:
                acc.violation("references-extra|shadowed-forward-reference", "references of the OUTER %s: %s, expected %s" % (nm, got, exp), dict(w, response=r2))
                continue
            acc.count("shadowed_forward_ok")
            acc.nontriv("shadowed-forward", files["main.asm"])
        finally:
            pr.close()


UNTAKEN_WITNESS = ".const x = 1\nsc: {\n    .if 0 {\n        .const x = 2\n    }\n    lda #x\n}\n"


def untaken_branch_witness(acc, probe):
    """The assembler binds `x` in `lda #x` to the outer constant (the branch that defines another `x` is not taken: A9 01); the
    language server must say the same. A recorded known finding: the analysis of untaken branches defines their symbols in
    the enclosing scope."""
    acc.evaluations += 1
    built = probe.ask({"files": {"main.asm": UNTAKEN_WITNESS}, "ops": ["parse", "codegen"], "opts": {"pc": 0xC000}})
    segs = (built.get("codegen") or {}).get("segments") or []
    data = "".join(s_.get("data", "") if isinstance(s_, dict) else "" for s_ in segs).lower()
    pr = L.Project({"main.asm": UNTAKEN_WITNESS}, open_files=("main.asm",))
    try:
        d = pr.pos_request("textDocument/definition", "main.asm", 5, 9)
    finally:
        pr.close()
    res = d.get("result")
    if not isinstance(res, list) or not res:
        acc.inconc("untaken-branch witness: no definition answer (%r)" % (d,))
        return
    line = res[0]["targetRange"]["start"]["line"]
    if line == 3:
        acc.violation("binding-differs|definition-in-untaken-branch-shadows-outer",
                      "`lda #x` assembles with the outer x (= 1), go-to-definition leads to the `.const x = 2` of the untaken branch",
                      {"main.asm": UNTAKEN_WITNESS, "definition": res, "assembled": data})
    elif line == 0:
        acc.nontriv("untaken-branch-witness")
    else:
        acc.violation("definition-wrong|untaken-branch-witness", "definition of x reported at line %d" % line, {"main.asm": UNTAKEN_WITNESS, "definition": res})


def shard(idx, n, seed, tier, params):
    acc = Acc()
    probe = Probe()
    rng = rng_for(seed, "c16", idx)
    t_end = time.time() + params["budget"]
    double_import_cases(acc, rng, 2 if tier == "quick" else 40)
    shadowed_forward_cases(acc, rng, 2 if tier == "quick" else 30)
    if idx == 0:
        untaken_branch_witness(acc, probe)
    for i in range(params["programs"] // n):
        if time.time() > t_end:
            acc.count("budget_cut")
            break
        g = L.gen_nav_program(rng, L.render.Hostile(rng) if rng.random() < 0.3 else None)
        if g is None:
            continue
        prog, files, r = g
        # only error-free projects (analysis mode, as the server assembles them)
        chk = probe.ask({"files": files, "ops": ["parse", "greedy"], "opts": {"pc": 0xC000}})
        if "parse" not in chk or chk["parse"].get("diags") or chk.get("greedy", {}).get("diags") or "panic" in chk.get("greedy", {}):
            acc.count("skipped.not-error-free")
            continue
        occs = L.occurrences(prog, r)
        if not occs:
            continue
        dead_macros = in_uninvoked_macro(prog)
        pr = L.Project(files)
        try:
            # ground truth: definition -> set of (file, line, c0, c1) of its uses
            import_ends = {(o["file"], o["line"], o["c0"]): o["c1"] for o in occs if o["in_import_stmt"]}
            uses = {}
            dead_macros = in_uninvoked_macro(prog)
            # line ranges of uninvoked macro definitions: what the one-off analysis of such a body binds is not judged
            dead_ranges = L.dead_regions(prog, dead_macros)
            in_dead = lambda f, ln, col: L.in_regions(dead_ranges, f, ln, col)
            # `super` tokens count as usages of the scope they leave; they are not identifier occurrences and are not judged
            flines = {fn: t.split("\n") for fn, t in files.items()}
            supers = {(o["file"], o["line"], o["c0"]) for o in r.occurrences if flines[o["file"]][o["line"]][o["c0"]:o["c1"]].lower() == "super"}
            fuzzy = set()       # definitions with uses inside uninvoked macros: their reference sets are not judged
            for o in occs:
                if o.get("site") is not None and any(a.uid in dead_macros for a in o["site"].chain()):
                    fuzzy.add(o["target"].uid)
                    continue
                if o["analysed"]:
                    uses.setdefault(o["target"].uid, set()).add((o["file"], o["line"], o["c0"], o["c1"]))
            alive = True
            for o in occs:
                d = o["target"]
                if d.pos is None or d.kind == "var":
                    continue
                if not o["analysed"]:
                    acc.count("occurrences.in-loop-that-runs-zero-times(not judged)")
                    continue
                col = rng.randrange(o["c0"], o["c1"] + 1) if rng.random() < 0.8 else o["c0"]
                acc.evaluations += 1
                resp = pr.pos_request("textDocument/definition", o["file"], o["line"], col)
                w = {"files": files, "request": "definition", "at": [o["file"], o["line"], col], "expected": list(d.pos[:4]), "response": resp}
                if resp.get("busy"):
                    acc.inconc("language server still computing after the extended watchdog")
                    break
                if "dead" in resp or "timeout" in resp:
                    acc.violation("server-died|definition", "no answer (%r): %s" % (resp, pr.srv.stderr[-200:].decode("utf8", "replace")), w)
                    alive = False
                    break
                res = resp.get("result")
                cls = context_of(o, prog, dead_macros)
                site_dead_macro = o.get("site") is not None and any(a.uid in dead_macros for a in o["site"].chain())
                if site_dead_macro:
                    acc.count("occurrences.in-uninvoked-macro(not judged)")
                    continue
                if not res:
                    acc.violation("definition-missing|%s" % cls, "no definition for %s at %s:%d:%d (expected %s)" % (d.name, o["file"], o["line"], col, d.pos[:4]), w)
                    continue
                link = res[0]
                got = (pr.name_of_uri(link["targetUri"]),) + L.rng_tuple(link["targetSelectionRange"])
                exp = (d.pos[0], d.pos[1], d.pos[2], d.pos[1], d.pos[3])
                if got != exp:
                    acc.violation("definition-wrong|%s" % cls, "definition of %s at %s:%d:%d leads to %s, the build binds it to %s" % (d.name, o["file"], o["line"], col, got, exp), w)
                    continue
                acc.count("definitions_ok")
                acc.nontriv(files["main.asm"], o["file"], o["line"], o["c0"])
                acc.cover("def_kind_x_spelling", "%s/%s" % (d.kind, "dotted" if o["ncomp"] > 1 else "plain"))
            if not alive:
                continue
            # references / highlights from the definition site of a sample of definitions
            defs = {o["target"].uid: o["target"] for o in occs}
            for d in rng.sample(list(defs.values()), min(len(defs), 8)):
                if d.pos is None or d.kind in ("index", "var") or d.uid in fuzzy or any(a.uid in dead_macros for a in d.scope.chain()):
                    continue
                col = rng.randrange(d.pos[2], d.pos[3] + 1)
                for incl in (True, False):
                    acc.evaluations += 1
                    resp = pr.pos_request("textDocument/references", d.pos[0], d.pos[1], col, {"context": {"includeDeclaration": incl}})
                    w = {"files": files, "request": "references", "def": d.name, "at": [d.pos[0], d.pos[1], col], "include_declaration": incl, "response": resp}
                    if resp.get("busy"):
                        acc.inconc("language server still computing after the extended watchdog")
                        break
                    if "dead" in resp or "timeout" in resp:
                        acc.violation("server-died|references", "no answer (%r)" % (resp,), w)
                        alive = False
                        break
                    got = set((pr.name_of_uri(l["uri"]),) + L.rng_tuple(l["range"]) for l in (resp.get("result") or []))
                    # `.import name as alias`: the suite pins that the usage covers `name as alias`; only its start is compared
                    # (the usage may even end on a later line when a comment between the name and `as` spans lines)
                    got = sorted(set(((g[0], g[1], g[2], g[1], import_ends[(g[0], g[1], g[2])]) if (g[0], g[1], g[2]) in import_ends else g) for g in got
                                     if not in_dead(g[0], g[1], g[2])))
                    exp = set((f, ln, c0, ln, c1) for (f, ln, c0, c1) in uses.get(d.uid, ()))
                    if incl:
                        exp.add((d.pos[0], d.pos[1], d.pos[2], d.pos[1], d.pos[3]))
                    exp = sorted(exp)
                    if got != exp:
                        missing = [x for x in exp if x not in got][:3]
                        extra = [x for x in got if x not in exp][:3]
                        kind = "missing" if missing and not extra else ("extra" if extra and not missing else "both")
                        acc.violation("references-%s|%s" % (kind, d.kind), "references of %s (%s declaration): missing %s, unexpected %s" % (d.name, "with" if incl else "without", missing, extra), dict(w, expected=exp, got=got))
                    else:
                        acc.count("references_ok")
                if not alive:
                    break
                acc.evaluations += 1
                resp = pr.pos_request("textDocument/documentHighlight", d.pos[0], d.pos[1], col)
                if "result" in resp:
                    got = sorted(set(L.rng_tuple(h["range"]) for h in (resp.get("result") or [])
                                     if not in_dead(d.pos[0], h["range"]["start"]["line"], h["range"]["start"]["character"])))
                    exp = set((ln, c0, ln, c1) for (f, ln, c0, c1) in uses.get(d.uid, ()) if f == d.pos[0])
                    exp.add((d.pos[1], d.pos[2], d.pos[1], d.pos[3]))
                    if got != sorted(exp):
                        acc.violation("highlight-differs|%s" % d.kind, "highlights of %s: got %s expected %s" % (d.name, got[:6], sorted(exp)[:6]),
                                      {"files": files, "request": "documentHighlight", "at": [d.pos[0], d.pos[1], col], "response": resp})
                    else:
                        acc.count("highlights_ok")
            if i == 0:
                acc.sample({"main.asm": files["main.asm"][:400], "occurrences": len(occs)})
        finally:
            pr.close()
    probe.close()
    return acc


def o_site_chain(prog, o):
    return o.get("site_chain") or []


def main(tier, seed):
    t0 = time.time()
    params = {"programs": 4000 if tier == "quick" else 80000, "budget": 90 if tier == "quick" else 1500}
    acc = run_sharded(shard, seed, tier, params)
    return finish(
        "C16", tier, seed, acc, t0,
        rule="error-free (in analysis mode) ProgGen projects with shadowed names in nested scopes, dotted and super spellings, macros with "
             "parameters and local labels, untaken branches, loops, imports via *, `* as`, specific `as`; every identifier occurrence the "
             "renderer recorded (last path component) is sent to textDocument/definition of a real `mos lsp` at a random column inside "
             "the token and must lead to the name span of the definition the generator bound it to (the binding C02 validates against "
             "the build's bytes); for a sample of definitions references (with/without declaration) must be exactly the recorded "
             "occurrences in all files and documentHighlight that set restricted to the file. Non-trivial = distinct occurrence "
             "answered correctly.",
        assumptions=["intermediate path components, `super` and -/+ are not judged", "parameter uses inside a macro that is never invoked have no definition in analysis mode (counted, not judged)"])
