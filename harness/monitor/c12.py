"""C12 - formatting never changes what a program means and never loses comments."""
import time

from ..common import finish, run_sharded
from . import fmtcommon

shard = fmtcommon.shard


def main(tier, seed):
    t0 = time.time()
    params = {"programs": 10000 if tier == "quick" else 150000, "configs": 3, "prop": "C12", "budget": 80 if tier == "quick" else 1200}
    acc = run_sharded(shard, seed, tier, params)
    return finish(
        "C12", tier, seed, acc, t0,
        rule="programs and configurations as for C13; the formatted text must parse without diagnostics, have the same token sequence "
             "(independent lexer, whitespace and letter case ignored, strings verbatim), the same comments in the same order (whitespace "
             "inside a comment collapsed), and assemble to the same bytes, symbol values and diagnostics; every 40th program also goes "
             "through `mos format` in a real directory (files must equal the library's text; with a parse error injected into one file "
             "no file may be touched). Non-trivial = distinct (program, configuration).",
        assumptions=["comment identity is compared modulo whitespace inside the comment (re-indentation of multi-line block comments is C13's business)"])
