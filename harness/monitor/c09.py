"""C09 - output files lay out banks and segments exactly as configured (real `mos build` in a scratch directory)."""
import os
import time

from ..common import Acc, TempProject, finish, rng_for, run_mos, run_sharded
from ..oracle import layout


def gen_config(rng, want_error=None):
    nb = rng.choice([0, 1, 1, 2, 3, 4])
    banks = []
    for i in range(nb):
        banks.append({"name": "b%d" % i, "size": None, "fill": rng.choice([None, None, 0xFF, 0xAA, 0]) , "filename": rng.choice([None, None, "f%d.bin" % rng.randrange(2)]),
                      "create_segment": False})
    ns = rng.randrange(1, 7)
    segs = []
    val = rng.randrange(1, 200)
    base = rng.choice([0x0000, 0x00F0, 0x0801, 0x2000, 0x8000, 0xFF00])
    cursor = base
    for i in range(ns):
        # (a segment that is defined but never written - with or without a `start` of its own - contributes nothing)
        n = rng.randrange(1, 24) if (i == 0 or rng.random() > 0.12) else 0
        r = rng.random()
        if i == 0 or r < 0.3:
            start = cursor + rng.choice([0, 0, 1, 5, 64])            # adjacent or gap
        elif r < 0.55:
            start = max(0, cursor - rng.randrange(1, 12))                # overlap with what came before
        elif r < 0.7:
            start = max(0, base - rng.randrange(1, 40))                  # below the current bank start
        else:
            start = rng.choice([0x1000, 0x4000, 0xC000, 0xE000]) + rng.randrange(0, 64)
        start = min(start, 0xFFFF - n)
        data = bytes((val + k) & 255 for k in range(n))
        val = (val + n + 7) & 255
        segs.append({"name": "s%d" % i, "start": start, "pc": rng.choice([None, None, None, 0x0200, 0x9000]), "write": rng.random() > 0.15,
                     "bank": (rng.choice(banks)["name"] if banks else None), "data": data, "start_expr": None,
                     "no_start": n == 0 and rng.random() < 0.5})
        cursor = max(cursor, start + n)
    # banks with create-segment = true bring a segment of their own name (default start $2000), defined where the bank is
    implicit = []
    for b in banks:
        if rng.random() < 0.2:
            b["create_segment"] = True
            n = rng.randrange(1, 16)
            data = bytes((val + k) & 255 for k in range(n))
            val = (val + n + 7) & 255
            implicit.append({"name": b["name"], "start": 0x2000, "pc": None, "write": True, "bank": b["name"], "data": data, "start_expr": None, "implicit": True})
    # dependencies between segments: start = segments.sK.end (+ gap)
    for i in range(1, ns):
        if rng.random() < 0.2:
            j = rng.randrange(0, i)
            gap = rng.choice([0, 0, 1, 16])
            new_start = segs[j]["start"] + len(segs[j]["data"]) + gap
            if new_start + len(segs[i]["data"]) <= 0x10000 and not segs[i].get("no_start") and segs[j]["data"]:
                segs[i]["start"] = new_start
                segs[i]["start_expr"] = "segments.s%d.end" % j + (" + %d" % gap if gap else "")
    segs = implicit + segs
    cfg = {"banks": banks, "segments": segs, "format": rng.choice([None, None, "prg", "bin"]), "output_filename": rng.choice([None, None, "out.dat"]), "entry_stem": "main",
           "forward_consts": rng.random() < 0.25}
    # a bank may also name the default output file explicitly (it then shares that file with the banks that name nothing)
    if len(banks) >= 2:
        fmt = cfg["format"] or "bin"
        default_name = cfg["output_filename"] or "main.%s" % fmt
        for b in banks:
            if rng.random() < 0.15:
                b["filename"] = default_name
    # sized banks: exact, larger (padding), or deliberately wrong
    verdict, files = layout.expected(dict(cfg))
    for b in banks:
        if rng.random() < 0.4:
            mine = [s for s in segs if s["bank"] == b["name"] and s["write"]]
            if mine:
                lo = min(s["start"] for s in mine)
                hi = max(s["start"] + len(s["data"]) for s in mine)
                b["size"] = (hi - lo) + rng.choice([0, 0, 1, 16, 256])
            else:
                b["size"] = rng.choice([0, 4, 16])
    explicit = [x for x in segs if not x.get("implicit")]
    if want_error == "oversize" and banks:
        b = rng.choice(banks)
        mine = [s for s in segs if s["bank"] == b["name"] and s["write"]]
        if mine:
            lo = min(s["start"] for s in mine)
            hi = max(s["start"] + len(s["data"]) for s in mine)
            b["size"] = max(0, hi - lo - rng.randrange(1, 4))
    elif want_error == "short-no-fill" and banks:
        b = rng.choice(banks)
        b["fill"] = None
        mine = [s for s in segs if s["bank"] == b["name"] and s["write"]]
        lo = min([s["start"] for s in mine] or [0])
        hi = max([s["start"] + len(s["data"]) for s in mine] or [0])
        b["size"] = hi - lo + rng.randrange(1, 9)
    elif want_error == "unknown-bank":
        rng.choice(explicit)["bank"] = "nope"
    elif want_error == "no-bank" and banks and len(segs) > 1:
        rng.choice(explicit)["bank"] = None
    elif want_error == "beyond-ffff":
        s = rng.choice([x for x in explicit if x["data"]])
        s["start"] = 0x10000 - rng.randrange(0, len(s["data"]))
        s["start_expr"] = None
    elif want_error == "prg-multibank" and len(banks) > 1:
        cfg["format"] = "prg"
    return cfg


def render_cfg(cfg):
    lines = []
    late = []        # constants that are only defined at the end of the file (bank options whose value is unknown in the first pass)
    for bi, b in enumerate(cfg["banks"]):
        fwd = cfg.get("forward_consts") and bi % 2 == 0
        lines.append(".define bank {")
        lines.append('    name = "%s"' % b["name"])
        if b["size"] is not None:
            if fwd:
                lines.append("    size = bsz_%d" % bi)
                late.append(".const bsz_%d = %d" % (bi, b["size"]))
            else:
                lines.append("    size = %d" % b["size"])
        if b["fill"] is not None:
            if fwd:
                lines.append("    fill = bfill_%d" % bi)
                late.append(".const bfill_%d = $%02x" % (bi, b["fill"]))
            else:
                lines.append("    fill = $%02x" % b["fill"])
        if b["filename"]:
            lines.append('    filename = "%s"' % b["filename"])
        if b.get("create_segment"):
            lines.append("    create-segment = true")
        lines.append("}")
    for s in cfg["segments"]:
        if s.get("implicit"):
            continue
        lines.append(".define segment {")
        lines.append('    name = "%s"' % s["name"])
        if not s.get("no_start"):
            lines.append("    start = %s" % (s["start_expr"] or "$%04x" % s["start"]))
        if s["pc"] is not None:
            lines.append("    pc = $%04x" % s["pc"])
        if not s["write"]:
            lines.append("    write = false")
        if s["bank"]:
            lines.append('    bank = "%s"' % s["bank"])
        lines.append("}")
    for s in cfg["segments"]:
        if not s["data"]:
            continue
        lines.append('.segment "%s" {' % s["name"])
        lines.append("    .byte " + ", ".join("%d" % b for b in s["data"]))
        lines.append("}")
    lines.extend(late)
    toml = "[build]\n"
    if cfg["format"]:
        toml += 'output-format = "%s"\n' % cfg["format"]
    if cfg["output_filename"]:
        toml += 'output-filename = "%s"\n' % cfg["output_filename"]
    return "\n".join(lines) + "\n", toml


def shape(cfg):
    segs = cfg["segments"]
    out = []
    for b in (cfg["banks"] or [{"name": None}]):
        mine = sorted([(s["start"], s["start"] + len(s["data"])) for s in segs if s["bank"] == b["name"] and s["write"]])
        for (a0, a1), (b0, b1) in zip(mine, mine[1:]):
            out.append("overlap" if b0 < a1 else ("adjacent" if b0 == a1 else "gap"))
    return out


def file_include_cases(acc, rng, count):
    """`.file` includes the bytes of a file as they are - every byte value, also an empty file - named relative to the source
    file that contains the directive (also from an imported file in another directory, also with an interpolated name); labels
    behind the data are addresses behind all of it. The image must be the concatenation."""
    for _ in range(count):
        def blob():
            return bytes(rng.randrange(256) for _ in range(rng.choice([0, 1, 2, 3, 17, 255, 256, 257, rng.randrange(0, 600)])))
        b1, b2, b3 = blob(), blob(), blob()
        pre = [rng.randrange(256) for _ in range(rng.randrange(0, 4))]
        files = {"data/blob.bin": b1, "sub/inner.bin": b2, "x y.bin": b3}
        main = [".byte %s" % ", ".join(map(str, pre))] if pre else []
        img = bytes(pre)
        order = ["plain", "import", "interp", "spaces"]
        rng.shuffle(order)
        order = order[:rng.randrange(1, 5)]
        for o in order:
            if o == "plain":
                main.append('.file "data/blob.bin"')
                img += b1
            elif o == "import":
                main.append('.import * from "sub/inc.asm"')
                files["sub/inc.asm"] = 'inc_start:\n.file "inner.bin"\ninc_end:\n'
                img += b2
            elif o == "interp":
                main.append('.const stem = "blob"\n.file "data/{stem}.bin"')
                img += b1
            else:
                main.append('.file "x y.bin"')
                img += b3
        main.append("behind:\n.word behind")
        end = 0x2000 + len(img)
        img += bytes([end & 255, end >> 8])
        files["main.asm"] = "\n".join(main) + "\n"
        acc.evaluations += 1
        with TempProject(files, "") as tp:
            r = run_mos(["--no-color", "-e", "Short", "build"], tp.dir)
            path = os.path.join(tp.dir, "target", "main.prg")
            got = open(path, "rb").read() if os.path.exists(path) else None
        w = {"main.asm": files["main.asm"], "blobs": {k: v.hex() for k, v in files.items() if isinstance(v, bytes)}, "exit": r["rc"], "stdout": r["out"][-300:]}
        if r["timeout"] or r["rc"] in (96, 97, 101) or (r["rc"] or 0) < 0:
            acc.inconc("file-include build did not finish normally (exit %s)" % r["rc"])
            continue
        acc.count("file_include.builds")
        if end > 0xFFFF:
            continue
        want = bytes([0x00, 0x20]) + img
        if r["rc"] != 0 or got is None:
            acc.violation("file-include|rejected|%s" % "+".join(sorted(order)), "a project that includes binary files was rejected: %s" % r["out"][-160:], w)
        elif got != want:
            k = next((j for j in range(min(len(got), len(want))) if got[j] != want[j]), min(len(got), len(want)))
            acc.violation("file-include|image-differs|%s" % "+".join(sorted(order)), "main.prg differs from the concatenation at offset %d (%d vs %d bytes)" % (k, len(got), len(want)),
                          dict(w, got=got.hex()[:400], want=want.hex()[:400]))
        else:
            acc.nontriv("file-include", files["main.asm"], len(img))


def shard(idx, n, seed, tier, params):
    acc = Acc()
    rng = rng_for(seed, "c09", idx)
    t_end = time.time() + params["budget"]
    file_include_cases(acc, rng, max(1, (120 if tier == "quick" else 3000) // n))
    errs = [None] * 6 + ["oversize", "short-no-fill", "unknown-bank", "no-bank", "beyond-ffff", "prg-multibank"]
    for i in range(params["builds"] // n):
        if time.time() > t_end:
            acc.count("budget_cut")
            break
        want = errs[i % len(errs)]
        cfg = gen_config(rng, want)
        src, toml = render_cfg(cfg)
        verdict, exp = layout.expected(cfg)
        acc.evaluations += 1
        with TempProject({"main.asm": src}, toml) as tp:
            r = run_mos(["--no-color", "-e", "Short", "build"], tp.dir)
            tdir = os.path.join(tp.dir, "target")
            got = {}
            if os.path.isdir(tdir):
                for fn in sorted(os.listdir(tdir)):
                    got[fn] = open(os.path.join(tdir, fn), "rb").read()
        w = {"main.asm": src, "mos.toml": toml, "exit": r["rc"], "stdout": r["out"][-500:], "stderr": r["err"][-300:],
             "files": {k: v.hex() for k, v in got.items()}, "expected": exp if verdict == "error" else {k: v.hex() for k, v in exp.items()}}
        nseg, nbank = len(cfg["segments"]), len(cfg["banks"])
        if r["timeout"] or r["rc"] in (96, 97, 101) or (r["rc"] or 0) < 0:
            acc.inconc("build did not finish normally (exit %s): %s" % (r["rc"], r["err"][-100:]))
            continue
        for sh in shape(cfg):
            acc.count("shape." + sh)
        acc.cover("formats", "%s/%s" % (cfg["format"], "named" if cfg["output_filename"] else "default"))
        acc.cover("bank_counts", nbank)
        if verdict == "error":
            acc.count("expected-error." + exp.split(" ")[0 if "bank" not in exp else -1][:20])
            acc.cover("error_classes", exp.split(" is ")[-1].split(" %s" % "")[0][:40] if False else " ".join(w for w in exp.split() if not any(c.isdigit() for c in w))[:40])
            if r["rc"] == 0:
                cls = " ".join(x for x in exp.split() if not any(c.isdigit() for c in x))
                acc.violation("accepted-invalid|%s|segments=%s" % (cls, "1" if nseg == 1 else "n"), "configuration must be rejected (%s) but built: files %s" % (exp, {k: len(v) for k, v in got.items()}), w)
            elif got:
                acc.violation("error-but-files-written", "build failed (%s) yet wrote %s" % (exp, list(got)), w)
            else:
                acc.nontriv(src, toml)
            continue
        acc.nontriv(src, toml)
        if r["rc"] != 0:
            msg = (r["out"].strip().split("\n") or [""])[0]
            acc.violation("rejected-valid|%s" % " ".join(x for x in msg.split("error:")[-1].split() if not any(c.isdigit() or c == "'" for c in x))[:50],
                          "valid configuration rejected: %s" % msg[:200], w)
            continue
        if got != exp:
            names = sorted(set(got) | set(exp))
            d = next(nm for nm in names if got.get(nm) != exp.get(nm))
            if d not in got or d not in exp:
                why = "file %s %s" % (d, "missing" if d not in got else "unexpected")
                cls = "file-set"
            else:
                a, b = got[d], exp[d]
                k = next((j for j in range(min(len(a), len(b))) if a[j] != b[j]), min(len(a), len(b)))
                why = "file %s differs at offset %d: got %s.. expected %s.. (lengths %d/%d)" % (d, k, a[k:k + 6].hex(), b[k:k + 6].hex(), len(a), len(b))
                cls = "length" if len(a) != len(b) else "content"
            acc.violation("files-differ|%s|banks=%s" % (cls, min(nbank, 2)), why, w)
        if i == 0:
            acc.sample({"main.asm": src[:600], "mos.toml": toml, "files": {k: len(v) for k, v in got.items()}})
    return acc


def main(tier, seed):
    t0 = time.time()
    params = {"builds": 20000 if tier == "quick" else 400000, "budget": 80 if tier == "quick" else 1200}
    acc = run_sharded(shard, seed, tier, params)
    return finish(
        "C09", tier, seed, acc, t0,
        rule="configurations of 0-4 banks (size exact/larger/wrong, fill, shared or own filename) and 1-6 non-empty segments with unique "
             "byte payloads (start adjacent/gapped/overlapping/below the bank start, pc, write = false, segments.x.end dependencies) x "
             "output-format prg/bin/unset x output-filename; half of the runs carry one deliberate error (oversize, short without fill, "
             "unknown bank, no bank, beyond $FFFF, prg with several banks). `mos build` runs in a scratch directory; every file of the "
             "target directory is compared with the layout model, invalid configurations must fail and write nothing. File includes: "
             "projects whose image is the concatenation of data and binary files included with `.file` (all byte values, empty files, "
             "names relative to an imported file in another directory, interpolated names, names with blanks) followed by a label's address. "
             "Non-trivial = distinct configuration judged.",
        assumptions=["layout.py is the statement of C09 turned into 60 lines of Python", "the first bank is never empty when a prg header is expected"])
