"""C04 - invalid programs are rejected at the offending location and produce no binary (real `mos build`)."""
import hashlib
import os
import re
import time

from ..common import Acc, Probe, TempProject, finish, rng_for, run_mos, run_sharded
from ..gen import prog as P
from ..gen import render

KNOBS = {"p_macro": 0.8, "p_loop": 0.8, "p_if": 0.8, "p_import": 0.5, "p_segments": 0.3, "max_bytes": 250, "top_stmts": 9, "p_setpc": 0.0}
DIAG = re.compile(r"^(?P<file>[^:\n]+):(?P<line>\d+):(?P<col>\d+): error: (?P<msg>.*)$", re.M)
SEMANTIC = {"undefined-symbol", "undefined-macro", "undefined-segment", "label-redefinition", "const-redefinition", "illegal-mode", "immediate-range",
            "branch-range", "macro-arity", "wrong-kind-of-value"}


def live_blocks(prog):
    """[(position class, statement list, scope, file, extra)] of blocks whose statements are assembled in build mode."""
    out = []
    invoked = set()

    def calls(body, live):
        for s in body:
            if s.k == "macrocall" and live:
                invoked.add(s.m.uid)
            if s.k == "if":
                calls(s.then, live and s.taken)
                if s.else_ is not None:
                    calls(s.else_, live and not s.taken)
            elif s.k == "loop":
                calls(s.block, live and s.count > 0)
            elif s.k == "macrodef":
                pass
            elif s.k == "import":
                calls(prog.files[s.file], live)
            else:
                for b in P.sub_blocks(s):
                    calls(b, live)
    calls(prog.files[prog.main], True)

    def walk(body, scope, file, cls, live, in_loop, in_macro, loop_count=0):
        if live:
            out.append((cls, body, scope, file, {"in_loop": in_loop, "in_macro": in_macro, "loop_count": loop_count if cls == "loop-body" else 0}))
        for s in body:
            if s.k == "if":
                walk(s.then, scope, file, "conditional", live and s.taken, in_loop, in_macro)
                if s.else_ is not None:
                    walk(s.else_, scope, file, "conditional", live and not s.taken, in_loop, in_macro)
            elif s.k == "loop":
                walk(s.block, s.bscope, file, "loop-body", live and s.count > 0, True, in_macro, s.count)
            elif s.k == "macrodef":
                walk(s.block, s.bscope, file, "macro-body", live and s.uid in invoked, in_loop, True)
            elif s.k in ("label", "braces") and s.block is not None:
                walk(s.block, s.bscope, file, "scope", live, in_loop, in_macro)
            elif s.k == "seguse" and s.block is not None:
                walk(s.block, scope, file, "segment-block", live, in_loop, in_macro)
            elif s.k == "import":
                walk(prog.files[s.file], s.bscope, s.file, "imported-file", live, in_loop, in_macro)
    walk(prog.files[prog.main], prog.root, prog.main, "top-level", True, False, False)
    return out


def make_fault(rng, prog, cls, block):
    """Returns the raw text of the offending construct (may be several lines; the LAST line is the offending one unless noted)."""
    pos_cls, body, scope, file, extra = block
    if cls == "undefined-symbol":
        macros = [s for s in prog.all_stmts() if s.k == "macrodef" and s.params]
        if macros and not extra["in_macro"] and rng.random() < 0.3:
            # as (part of) an argument of a macro invocation
            m = rng.choice(macros)
            args = ["1"] * len(m.params)
            args[rng.randrange(len(args))] = rng.choice(["undefined_zz", "undefined_zz + 1", "<undefined_zz", "(undefined_zz)"])
            return "%s(%s)" % (m.d.name, ", ".join(args)), "last"
        return rng.choice(["lda undefined_zz", "sta undefined_zz,x", ".word undefined_zz", ".byte <undefined_zz", "jmp undefined_zz", "lda #>undefined_zz",
                           # behind an operand that already decides the result
                           ".byte 0 && undefined_zz", "lda #(1 || undefined_zz)", ".byte (1 == 2) && (undefined_zz > 1)", ".word 5 || undefined_zz",
                           ".if 0 && undefined_zz { nop }", ".if 1 || undefined_zz { nop }",
                           # only inside an interpolated string
                           '.text "v{undefined_zz}"', '.text ascii "a{undefined_zz}b"', '.byte "x{undefined_zz}" == "x"']), "last"
    if cls == "undefined-macro":
        return "nosuchmacro_zz(1)", "last"
    if cls == "undefined-segment":
        return '.segment "nosuchseg_zz" { nop }', "last"
    if cls == "label-redefinition":
        if extra["in_loop"]:
            return None, None
        return "dup_zz:\nnop\ndup_zz:", "any"
    if cls == "const-redefinition":
        if extra["in_loop"]:
            return None, None
        return ".const dupc_zz = 1\n.const dupc_zz = 2", "any"
    if cls == "illegal-mode":
        return rng.choice(["stx $10,x", "inc #1", "lda ($1234),y", "jmp ($10,x)", "ldx $10,x", "sta #5", "jsr ($1234)", "lda ($10,y)", "bne ($10)"]), "last"
    if cls == "immediate-range":
        return rng.choice(["lda #300", "cpx #256", "ora #$1ff", "ldy #65535"]), "last"
    if cls == "branch-range":
        if not extra["in_loop"] and not extra["in_macro"] and rng.random() < 0.3:
            # just out of range, to a label: the failing branch emits nothing, so every other pass the label is within reach again
            n = rng.choice([128, 129, 130])
            if rng.random() < 0.5:
                return "bne far_zz\n" + "nop\n" * n + "far_zz:", "any"
            return "back_zz:\n" + "nop\n" * (n - 1) + "bne back_zz", "any"
        return rng.choice(["bne * + 300", "beq * - 200", "bcc * + 130", "bpl * - 127"]), "last"
    if cls == "macro-arity":
        macros = [s for s in prog.all_stmts() if s.k == "macrodef"]
        if pos_cls == "top-level" and not prog.has_segments and rng.random() < 0.4:
            # a macro that is defined further down than the call with the wrong number of arguments (appended by the caller)
            n = rng.choice([0, 1, 3, 4])
            return "late_zz(%s)" % ", ".join(["1"] * n), "last+late-macro"
        if not macros or extra["in_macro"]:
            return None, None
        m = rng.choice(macros)
        n = len(m.params) + rng.choice([1, 2]) if (len(m.params) == 0 or rng.random() < 0.5) else len(m.params) - 1
        return "%s(%s)" % (m.d.name, ", ".join(["1"] * n)), "last"
    if cls == "wrong-kind-of-value":
        # a number combined with a string, or the name of a macro where a value is needed
        macros = [m for m in prog.all_stmts() if m.k == "macrodef"]
        names = {getattr(x, "d", None).name for x in prog.all_stmts() if getattr(x, "d", None) is not None and x.k != "macrodef"}
        free = [m for m in macros if m.d.name not in names]
        if free and not extra["in_macro"] and file == prog.main and rng.random() < 0.4:
            m = rng.choice(free)
            return rng.choice(["lda %s", "sta %s,x", ".word %s", "lda #<%s", ".byte %s + 1"]) % m.d.name, "last"
        return rng.choice(['.byte 1 + "a"', 'lda #1 + "abc"', '.word "a" * 2', '.byte 2 - "x", 3', 'lda "a" + 1', '.dword ("q" + "r") + 1', 'cmp #("a" == 1)']), "last"
    if cls == "segment-before-definition":
        # code is put into a segment in front of that segment's definition (which replaces the segment: the code would vanish)
        if pos_cls != "top-level" or not prog.has_segments:
            return None, None
        return '.segment "late_zz" { .byte 1, 2, 3 }\n.define segment { name = "late_zz" start = $7000 }', "any"
    if cls == "malformed":
        return rng.choice(["lda #", ".byte ,", "%%%", ")", "lda (", ".const = 5", ".if { nop }", "* = ", ".loop { nop }", "sta $10,", "lda #1 2", '.text "abc',
                           ".byte", ".word", ".dword", ".byte // nothing", ".text", ".align", ".const x_zz =", "lda #1,"]), "last"
    if cls == "unclosed-block":
        return rng.choice(["{\nnop", "unc_zz: {\nnop", ".if 1 {\nnop", ".loop 2 {\nnop"]), "to-eof"
    raise ValueError(cls)


CLASSES = ["undefined-symbol", "undefined-macro", "undefined-segment", "label-redefinition", "const-redefinition", "illegal-mode", "immediate-range",
           "branch-range", "macro-arity", "malformed", "unclosed-block", "wrong-kind-of-value", "segment-before-definition"]
SENTINEL = b"\x01\x08SENTINEL-FROM-AN-EARLIER-GOOD-BUILD"


def shard(idx, n, seed, tier, params):
    acc = Acc()
    probe = Probe()
    rng = rng_for(seed, "c04", idx)
    t_end = time.time() + params["budget"]
    toml = '[build]\nlisting = true\nsymbols = ["vice"]\n'
    done = 0
    attempts = 0
    while done < params["builds"] // n and time.time() < t_end and attempts < params["builds"] * 3:
        attempts += 1
        prog = P.generate(rng, KNOBS)
        if prog.base_pc != 0x2000 and not prog.has_segments:
            continue
        try:
            files0, _ = render.render_program(prog)
        except render.SpellError:
            continue
        # the program must be valid before the fault goes in (the CLI assembles at $2000)
        r0 = probe.ask({"files": files0, "ops": ["parse", "codegen"], "opts": {"pc": 0x2000}})
        if "parse" not in r0 or r0["parse"].get("diags") or r0.get("codegen", {}).get("diags") or "panic" in r0.get("codegen", {}):
            acc.count("base-program-invalid")
            continue
        cls = CLASSES[(done + idx) % len(CLASSES)]
        blocks = live_blocks(prog)
        block = rng.choice(blocks)
        if cls == "unclosed-block":
            # only where the rest of the file is the rest of the block's file (top level of a file)
            tops = [b for b in blocks if b[0] in ("top-level", "imported-file")]
            block = rng.choice(tops)
        text, where = make_fault(rng, prog, cls, block)
        if text is None:
            continue
        pos_cls, body, scope, file, extra = block
        late_macro = where == "last+late-macro"
        if late_macro:
            where = "last"
        if extra["loop_count"] >= 2 and not extra["in_macro"] and where == "last" and "\n" not in text and cls in SEMANTIC and rng.random() < 0.6:
            # directly in a loop body: the fault exists in ONE iteration only (any of them, also not the last one)
            k = rng.randrange(extra["loop_count"])
            if cls == "immediate-range" and rng.random() < 0.5:
                text = "lda #%d - index" % (256 + k) if k == 0 else "lda #255 + (index == %d)" % k
            else:
                text, where = ".if index == %d {\n%s\n}" % (k, text), "mid"
            pos_cls = "loop-body/one-iteration"
        st = P.Stmt("raw", scope, text=text)
        if cls == "unclosed-block":
            body.append(st)
        else:
            i = rng.randrange(len(body) + 1)
            # not between `label:` / `.segment "x"` / `.import` and a following `{`; not as the first thing after segment definitions
            if prog.has_segments and pos_cls == "top-level":
                i = max(i, len(prog.segments) + 1)
            body.insert(i, st)
            if i + 1 < len(body) and body[i + 1].k == "braces" and text.rstrip().endswith(":"):
                body.insert(i + 1, P.Stmt("instr", scope, mn="nop", form="none", expr=None))
            if late_macro:
                prog.files[prog.main].append(P.Stmt("raw", prog.root, text=".macro late_zz(a, b) {\n    lda #a\n    ldx #b\n}"))
        try:
            files, _ = render.render_program(prog)
        except render.SpellError:
            continue
        m = st.marks["stmt"]
        l0, c0, l1, c1 = m[1] + 1, m[2] + 1, m[3] + 1, m[4] + 1
        if where == "last":
            ok_lines = {l1}
            first_col = len(files[file].split("\n")[l1 - 1]) - len(files[file].split("\n")[l1 - 1].lstrip()) + 1
            col_range = (first_col, c1 + 1)
        elif where == "mid":
            ok_lines = {l0 + 1}
            ln = files[file].split("\n")[l0]
            col_range = (len(ln) - len(ln.lstrip()) + 1, len(ln) + 1)
        elif where == "any":
            ok_lines = set(range(l0, l1 + 1))
            col_range = (1, 200)
        else:
            ok_lines = set(range(l0, files[file].count("\n") + 3))
            col_range = (1, 10 ** 6)
        done += 1
        acc.evaluations += 1
        with TempProject(files, toml) as tp:
            tdir = os.path.join(tp.dir, "target")
            os.makedirs(tdir)
            sp = os.path.join(tdir, "main.prg")
            with open(sp, "wb") as f:
                f.write(SENTINEL)
            os.utime(sp, (1_600_000_000, 1_600_000_000))
            before = {fn: (os.stat(os.path.join(tdir, fn)).st_mtime_ns, open(os.path.join(tdir, fn), "rb").read()) for fn in os.listdir(tdir)}
            r = run_mos(["--no-color", "-e", "Short", "build"], tp.dir)
            after = {fn: (os.stat(os.path.join(tdir, fn)).st_mtime_ns, open(os.path.join(tdir, fn), "rb").read()) for fn in os.listdir(tdir)}
        w = {"files": files, "fault_class": cls, "position": pos_cls, "fault_text": text, "fault_file": file, "fault_lines": [l0, l1], "exit": r["rc"],
             "stdout": r["out"][-1500:], "stderr": r["err"][-300:]}
        acc.count("class.%s" % cls)
        acc.cover("class_x_position", "%s @ %s" % (cls, pos_cls))
        if r["timeout"] or r["rc"] in (96, 97, 101) or (r["rc"] or 0) < 0:
            acc.inconc("abnormal exit %s (C06): %s" % (r["rc"], r["err"][-120:]))
            continue
        if r["rc"] == 0:
            acc.violation("accepted|%s|%s" % (cls, pos_cls), "build succeeded although a %s fault was injected (%r at %s:%d)" % (cls, text, file, l1), w)
            continue
        if after != before:
            changed = [fn for fn in set(after) | set(before) if after.get(fn) != before.get(fn)]
            acc.violation("target-modified|%s" % cls, "failed build touched the target directory: %s" % changed, w)
            continue
        diags = [(m_.group("file"), int(m_.group("line")), int(m_.group("col")), m_.group("msg")) for m_ in DIAG.finditer(r["out"])]
        if not diags:
            acc.violation("no-located-diagnostic|%s|%s" % (cls, pos_cls), "no diagnostic with a location: %s" % r["out"][-200:], w)
            continue
        hits = [d for d in diags if os.path.basename(d[0]) == os.path.basename(file) and d[1] in ok_lines]
        if not hits and (cls in ("undefined-symbol", "undefined-macro", "undefined-segment", "macro-arity") or (cls == "branch-range" and "_zz" in text)) \
                and all("branch too far" in d[3] for d in diags):
            # (or: the 130 bytes that were put in pushed a branch of the program itself out of range)
            # the statement with the unknown name emits nothing, which moves what follows: a branch elsewhere got out of range,
            # and an error of that kind is reported before unknown names are. The program now has two faults; the report of the
            # other one is located correctly as far as this check can tell, so this case is not judged.
            acc.count("induced-second-fault(not judged)")
            continue
        if not hits:
            acc.violation("wrong-location|%s|%s" % (cls, pos_cls), "fault at %s lines %s, diagnostics at %s" % (file, sorted(ok_lines)[:3], [(d[0], d[1], d[2], d[3][:40]) for d in diags[:4]]), w)
            continue
        acc.count("line_matched")
        if cls in SEMANTIC:
            if any(col_range[0] <= d[2] <= col_range[1] for d in hits):
                acc.count("column_matched")
            else:
                acc.violation("wrong-column|%s" % cls, "fault at %s:%d columns %s, diagnostics %s" % (file, l1, col_range, [(d[1], d[2]) for d in hits]), w)
                continue
        acc.nontriv(cls, pos_cls, tuple(sorted(files.items())))
        if len(acc.samples) < 2:
            acc.sample({"class": cls, "position": pos_cls, "fault": text, "at": "%s:%d" % (file, l1), "stdout": r["out"][:200]})
    probe.close()
    return acc


def main(tier, seed):
    t0 = time.time()
    params = {"builds": 12000 if tier == "quick" else 200000, "budget": 80 if tier == "quick" else 1200}
    acc = run_sharded(shard, seed, tier, params)
    return finish(
        "C04", tier, seed, acc, t0, level="fault_enumeration",
        rule="valid ProgGen programs (checked to assemble first) into which exactly one fault is injected: 13 classes (code put into a segment in front of that segment's definition, a number combined with a string or a macro name used as a value, undefined symbol / "
             "macro / segment, label and constant redefinition, illegal addressing mode, immediate > 255, branch out of range, wrong macro "
             "arity, malformed statement, unclosed block) at a random live position (top level, scope, macro body of an invoked macro, "
             "loop body, taken conditional branch, segment block, imported file). `mos build --error-style Short` runs in a scratch "
             "directory that already holds a sentinel main.prg: exit status must be non-zero, some diagnostic must name the fault's file "
             "and line (and a column inside the construct for semantic classes), and the target directory must be unchanged (content and "
             "mtime). Non-trivial = distinct (class, position, program).",
        assumptions=["for redefinitions either definition's line is accepted; for an unclosed block any line from the opening brace to the end of the file"])
