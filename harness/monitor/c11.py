"""C11 - source map and listings are exact: compared with the emission record of the certificate walker."""
import os
import re
import time
from collections import Counter

from ..common import Acc, Probe, TempProject, finish, rng_for, run_mos, run_sharded
from ..gen import prog as P
from ..gen import render
from ..oracle import certcheck

KNOBS = {"p_macro": 0.8, "max_macros": 2, "p_loop": 0.8, "p_import": 0.5, "p_segments": 0.5, "p_relocated": 0.5, "max_bytes": 300, "top_stmts": 10, "p_nested_segment": 0.5}
ROW = re.compile(r"^\s*(\d+) (?:([0-9A-F]{4}):|     ) ?(.*)$")


def expected_entries(w, move):
    """Multiset of (file, o0, o1, pc0, pc1) from the walker's emission record."""
    out = Counter()
    for em in w.emissions:
        st, mark, tpc, n = em[0], em[1], em[2], em[3]
        if n == 0:
            continue
        call = em[6] if len(em) > 6 else None
        m = call.marks["name"] if (move and call is not None) else st.marks[mark]
        out[(m[0], m[5], m[6], tpc, tpc + n)] += 1
    return out


def expected_listing(w, files, nbytes, images):
    """{file: [(line_no, addr|None, [bytes], has_source)]} following the property's reading of a listing row."""
    per_line = {}
    for em in w.emissions:
        st, mark, tpc, n, chain, segname = em[:6]
        if n == 0:
            continue
        call = em[6] if len(em) > 6 else None
        m = call.marks["name"] if call is not None else st.marks[mark]
        seg = w.segs[segname]
        data = [(tpc + k, seg.data[tpc - seg.offset + k]) for k in range(n)]
        per_line.setdefault((m[0], m[1]), []).extend(data)
    out = {}
    for fname, text in files.items():
        rows = []
        lines = text.split("\n")
        for i, line in enumerate(lines):
            data = per_line.get((fname, i), [])
            if not data:
                rows.append((i + 1, None, [], line))
            else:
                for c in range(0, len(data), nbytes):
                    chunk = data[c:c + nbytes]
                    rows.append((i + 1, chunk[0][0], [b for _, b in chunk], line if c == 0 else None))
        out[fname] = rows
    return out


def parse_listing(text, nbytes):
    rows = []
    for raw in text.replace("\r\n", "\n").split("\n"):
        m = re.match(r"^\s*(\d+)( |$)", raw)
        if not m:
            rows.append(("unparsed", raw))
            continue
        lineno = int(m.group(1))
        rest = raw[6:]
        addr = None
        if re.match(r"^[0-9A-F]{4}:", rest):
            addr = int(rest[:4], 16)
        rest = rest[6:]
        field = rest[:nbytes * 3]
        src = rest[nbytes * 3 + 1:] if len(rest) > nbytes * 3 else None
        bs = [int(x, 16) for x in field.split()] if addr is not None else []
        rows.append((lineno, addr, bs, src))
    return rows


def compare_listing(exp_rows, got_rows):
    """None or a description of the first difference."""
    # trailing empty rows are trimmed by the writer
    e = list(exp_rows)
    g = list(got_rows)
    for i in range(max(len(e), len(g))):
        if i >= len(e):
            return "extra row %r" % (g[i],), None
        if i >= len(g):
            return "missing row for line %d (expected %r)" % (e[i][0], e[i]), e[i]
        er, gr = e[i], g[i]
        if gr[0] == "unparsed":
            return "unparsable row %r" % (gr[1],), er
        if er[0] != gr[0]:
            return "row %d: line number %d, expected %d" % (i, gr[0], er[0]), er
        if er[1] != gr[1] or er[2] != gr[2]:
            return "line %d: address/bytes %s %s, expected %s %s" % (er[0], "%04X" % gr[1] if gr[1] is not None else None, bytes(gr[2]).hex(),
                                                                 "%04X" % er[1] if er[1] is not None else None, bytes(er[2]).hex()), er
        es = (er[3] or "").rstrip() if er[3] is not None else None
        gs = (gr[3] or "").rstrip() if gr[3] is not None else None
        if (es or "") != (gs or ""):
            return "line %d: source text %r, expected %r" % (er[0], gs, es), er
    return None, None


def one_program(acc, probe, rng, cli):
    prog = P.generate(rng, KNOBS)
    try:
        # a third of the programs in the hostile layout: several statements on one line, statements that continue on the
        # next line inside a block comment, comment and blank lines (LF only: the listing is compared line by line)
        files, r = render.render_program(prog, render.Hostile(rng, crlf=False, case=False) if rng.random() < 0.35 else None)
    except render.SpellError:
        acc.count("generator.unspellable")
        return
    nbytes = rng.randrange(1, 17)
    resA = probe.ask({"files": files, "ops": ["parse", "codegen", "symbols", "source_map"], "opts": {"pc": prog.base_pc, "move_macro": False}})
    cgA = resA.get("codegen", {})
    if "parse" not in resA or resA["parse"].get("diags") or cgA.get("diags") or "ctx" not in cgA:
        acc.count("not-assembled")
        return
    verdict, detail, w = certcheck.check(prog, cgA["ctx"], prog.base_pc)
    if verdict != "ok":
        acc.count("certificate-not-ok(C02)")
        return
    acc.evaluations += 1
    relocated = any(s.offset != 0 for s in w.segs.values())
    has_macro = any(len(em) > 6 for em in w.emissions)
    ctxsig = "relocated" if relocated else "plain"
    # ---- definition-site mode
    exp = expected_entries(w, False)
    got = Counter((e["span"]["file"], e["span"]["o0"], e["span"]["o1"], e["pc0"], e["pc1"]) for e in cgA["ctx"]["source_map"] if e["pc1"] > e["pc0"] and "file" in e["span"])
    acc.count("source_map_entries_checked", sum(exp.values()))
    if exp != got:
        miss = list((exp - got).elements())[:2]
        extra = list((got - exp).elements())[:2]
        acc.violation("source-map|definition-mode|%s" % ctxsig, "source map differs: expected-but-absent %s, present-but-unexpected %s" % (miss, extra),
                      {"files": files, "base_pc": prog.base_pc, "missing": miss, "extra": extra})
        return
    # ---- the address lookup the debugger uses: an address that was emitted exactly once leads back to its entry
    ents = [e for e in cgA["ctx"]["source_map"] if e["pc1"] > e["pc0"] and "file" in e["span"]]
    for e in ents:
        for which, pc in (("lookup0", e["pc0"]), ("lookup1", e["pc1"] - 1)):
            if sum(1 for x in ents if x["pc0"] <= pc < x["pc1"]) != 1:
                continue        # emitted more than once (overlapping `* =`): the lookup may answer with either
            lk = e.get(which)
            acc.count("address_lookups_checked")
            ok = isinstance(lk, dict) and "span" in lk and lk["span"].get("o0") == e["span"]["o0"] and lk["span"].get("o1") == e["span"]["o1"] and lk.get("pc0") == e["pc0"]
            if not ok:
                acc.violation("address-lookup|%s" % ("not-found" if lk is None else "wrong-entry"),
                              "address $%04X was emitted by the statement at %s:%d..%d, the address lookup answers %s" % (pc, e["span"]["file"], e["span"]["o0"], e["span"]["o1"], lk),
                              {"files": files, "base_pc": prog.base_pc, "entry": e})
                return
    # ---- invocation-site mode + listing
    resB = probe.ask({"files": files, "ops": ["parse", "codegen", "symbols", "source_map", "listing"], "opts": {"pc": prog.base_pc, "move_macro": True, "listing_bytes": nbytes}})
    cgB = resB.get("codegen", {})
    if cgB.get("diags") or "ctx" not in cgB:
        acc.violation("move-mode-changes-outcome", "build fails only with macro attribution moved to the invocation: %s" % cgB.get("diags"), {"files": files})
        return
    expB = expected_entries(w, True)
    gotB = Counter((e["span"]["file"], e["span"]["o0"], e["span"]["o1"], e["pc0"], e["pc1"]) for e in cgB["ctx"]["source_map"] if e["pc1"] > e["pc0"] and "file" in e["span"])
    if expB != gotB:
        miss = list((expB - gotB).elements())[:2]
        extra = list((gotB - expB).elements())[:2]
        acc.violation("source-map|invocation-mode|%s" % ctxsig, "source map (macro bytes attributed to the invocation) differs: absent %s, unexpected %s" % (miss, extra),
                      {"files": files, "base_pc": prog.base_pc, "missing": miss, "extra": extra})
        return
    acc.nontriv(tuple(sorted(files.items())))
    acc.count("programs.relocated" if relocated else "programs.not_relocated")
    acc.count("programs.with_macro_bytes" if has_macro else "programs.without_macro_bytes")
    listing = cgB.get("listing")
    if listing is None:
        acc.violation("listing|failed", "listing generation failed: %s" % (cgB.get("listing_err") or cgB.get("listing_panic")), {"files": files, "nbytes": nbytes})
        return
    expL = expected_listing(w, files, nbytes, None)
    total_exp = sum(len(r[2]) for rows in expL.values() for r in rows)
    for fname in files:
        got_rows = parse_listing(listing.get(fname, ""), nbytes)
        why, er = compare_listing(expL[fname], got_rows)
        acc.count("listing_rows_checked", len(got_rows))
        if why:
            # which segment does the expected row belong to?
            rel = "plain"
            if er is not None and er[1] is not None:
                for s in w.segs.values():
                    if s.lo is not None and s.lo + s.offset <= er[1] < s.hi + s.offset and s.offset != 0:
                        rel = "relocated-segment"
            kind = "bytes-missing" if "expected" in why and " None " in why.split("expected")[0] + " " else "row-differs"
            acc.violation("listing|%s|%s" % (kind, rel), "%s listing (%d bytes per row): %s" % (fname, nbytes, why),
                          {"files": files, "base_pc": prog.base_pc, "nbytes": nbytes, "listing": listing.get(fname), "expected_rows": [list(map(str, r)) for r in expL[fname]][:60]})
            return
    acc.count("listing_bytes_checked", total_exp)
    if cli and not relocated and (prog.has_segments or prog.base_pc == 0x2000):
        toml = "[build]\nlisting = true\n[formatting]\nlisting.num-bytes-per-line = %d\n" % nbytes
        with TempProject(files, toml) as tp:
            r = run_mos(["--no-color", "-e", "Short", "build"], tp.dir)
            acc.count("cli.builds")
            if r["rc"] != 0:
                acc.violation("cli|build-failed", "mos build failed: %s" % r["out"][-200:], {"files": files})
                return
            for fname in files:
                path = os.path.join(tp.dir, "target", os.path.splitext(os.path.basename(fname))[0] + ".lst")
                got = open(path).read() if os.path.exists(path) else None
                if got != listing.get(fname):
                    acc.violation("cli|lst-differs", "%s.lst differs from the library's listing" % fname, {"files": files, "got": got, "want": listing.get(fname)})
                    return
    return files, listing


def overlay_cases(acc, probe, rng, count):
    """Overlays: segments that are stored at different places but run at the same address, each importing the same file. The
    listing of that file must hold every byte every overlay emitted for it (conservation), at the run address."""
    for _ in range(count):
        n = rng.randrange(2, 5)
        pc = rng.choice([0xC000, 0x0200, 0x8000])
        lines = ['.define segment { name = "o%d" start = $%04x pc = $%04x }' % (i, 0x1000 * (i + 1), pc) for i in range(n)]
        order = list(range(n))
        rng.shuffle(order)
        for i in order:
            lines.append('.segment "o%d" { .import * as ov%d from "shared.asm" }' % (i, i))
        body = [("x: lda #%d" % rng.randrange(256), 2), ("    sta $d0%02x" % rng.randrange(64), 3)]
        if rng.random() < 0.5:
            body.append(("    .byte %s" % ", ".join(str(rng.randrange(256)) for _ in range(rng.randrange(1, 9))), None))
        body.append(("    rts", 1))
        nbytes = sum(b if b is not None else t.count(",") + 1 for t, b in body)
        files = {"main.asm": "\n".join(lines) + "\n", "shared.asm": "\n".join(t for t, _ in body) + "\n"}
        acc.evaluations += 1
        r = probe.ask({"files": files, "ops": ["parse", "codegen", "listing"], "opts": {"pc": 0x2000}})
        c = r.get("codegen") or {}
        if r.get("parse", {}).get("diags") or c.get("diags") or not isinstance(c.get("listing"), dict):
            acc.inconc("overlay project did not assemble: %s" % str(c.get("diags"))[:120])
            continue
        text = c["listing"].get("shared.asm", "")
        listed = 0
        for row in text.split("\n"):
            m = re.match(r"\s*\d+ ([0-9A-F]{4}): (.{0,24})", row)      # 8 bytes per row: 24 columns of hex pairs, then the source text
            if m:
                listed += len(re.findall(r"(?:^| )([0-9A-F]{2})(?= |$)", m.group(2)))
        if listed != n * nbytes:
            acc.violation("listing|bytes-missing|overlays", "%d overlays emit %d bytes each from shared.asm, its listing shows %d bytes" % (n, nbytes, listed),
                          {"files": files, "listing": text})
        else:
            acc.nontriv("overlay", tuple(sorted(files.items())))
            acc.count("overlay_cases_ok")


def same_stem_cases(acc, rng, count):
    """`mos build` names a listing after its source file: every source file of a project whose files share a stem (same name in
    two directories, names that differ only in the extension) must still have a listing of its own lines."""
    from .c10 import same_stem_project
    for _ in range(count):
        kind, files = same_stem_project(rng)
        acc.evaluations += 1
        with TempProject(files, "[build]\nlisting = true\n") as tp:
            r = run_mos(["--no-color", "-e", "Short", "build"], tp.dir)
            if r["rc"] != 0:
                acc.inconc("same-stem project did not build: %s" % r["out"][-120:])
                continue
            listings = {}
            tdir = os.path.join(tp.dir, "target")
            for base, _, fns in os.walk(tdir):
                for fn in fns:
                    if fn.endswith(".lst"):
                        listings[os.path.relpath(os.path.join(base, fn), tdir)] = open(os.path.join(base, fn)).read()
        acc.count("cli.same_stem_builds")
        owner = {}
        for fname, text in sorted(files.items()):
            want = [l.strip() for l in text.split("\n") if l.strip()]
            mine = [n_ for n_, l in sorted(listings.items()) if all(any(row.rstrip().endswith(w) for row in l.split("\n")) for w in want)]
            if not mine:
                acc.violation("cli|listing-missing|files-sharing-a-stem", "no listing shows the lines of %s (listings written: %s)" % (fname, sorted(listings)),
                              {"files": files, "listings": listings, "project_kind": kind})
                break
            owner[fname] = mine
        else:
            acc.nontriv("same-stem", tuple(sorted(files.items())))
            acc.cover("same_stem_kinds", kind)


def shard(idx, n, seed, tier, params):
    acc = Acc()
    probe = Probe()
    rng = rng_for(seed, "c11", idx)
    t_end = time.time() + params["budget"]
    same_stem_cases(acc, rng, max(1, (24 if tier == "quick" else 600) // n))
    overlay_cases(acc, probe, rng, max(2, (200 if tier == "quick" else 5000) // n))
    for i in range(params["programs"] // n):
        if time.time() > t_end:
            acc.count("budget_cut")
            break
        got = one_program(acc, probe, rng, cli=(i % 15 == 0))
        if got and len(acc.samples) < 1:
            acc.sample({"main.asm": got[0]["main.asm"][:300], "listing": got[1].get("main.asm", "")[:500]})
    probe.close()
    return acc


def main(tier, seed):
    t0 = time.time()
    params = {"programs": 12000 if tier == "quick" else 250000, "budget": 80 if tier == "quick" else 1200}
    acc = run_sharded(shard, seed, tier, params)
    return finish(
        "C11", tier, seed, acc, t0,
        rule="ProgGen programs (multi-segment, relocated, loops, macros invoked several times, imports) that assemble and pass the "
             "certificate checker; the walker's emission record (statement span, target address, length, macro invocation) is the ground "
             "truth. Source-map entries must equal it as a multiset in both macro attribution modes; listings (bytes per row 1..16) must "
             "show every source line once and in order, after each address the bytes of that line in emission order, every emitted byte "
             "exactly once; every 15th program is also built by `mos build` with listing = true and the .lst files compared; "
             "projects whose source files share a file stem are built by `mos build`: every source file must have a listing of its own lines; "
             "overlays (segments stored at different places that run at the same address, each importing the same file): the listing of that file holds every byte of every overlay. "
             "Non-trivial = distinct program whose source map matched in both modes.",
        assumptions=["one statement per line (plain layout), so line <-> statement is exact",
                     "a row's address is the target address of its first byte; rows of a line whose bytes are not contiguous (loop bodies) continue in emission order"])
