"""C05 - lossless parse: no diagnostics => Display(tokens) == text (modulo keyword case, CRLF->LF); nothing silently ignored."""
import re
import time

from ..common import Acc, Probe, finish, rng_for, run_sharded
from ..gen import corpus, mutate
from ..oracle import isa6502 as isa

KEYWORDS = set(isa.MNEMONICS) | {".byte", ".word", ".dword", ".const", ".var", ".define", ".macro", ".segment", ".loop", ".if",
                                 ".align", ".import", ".text", ".file", ".test", ".assert", ".trace", "else", "as", "from",
                                 "ascii", "petscii", "petscreen", "x", "y"}
MARKER_SRC = "\nlda #$a5\n.byte $5a, $a5, $5a, $c3\n"
MARKER = bytes([0xA9, 0xA5, 0x5A, 0xA5, 0x5A, 0xC3])
MAXKW = max(len(k) for k in KEYWORDS)
KW_BY_FIRST = {}
for _k in KEYWORDS:
    KW_BY_FIRST.setdefault(_k[0], []).append(_k)
WORD = re.compile(r"\.?[A-Za-z_][A-Za-z0-9_]*")


_ASCII_LOWER = {c: c + 32 for c in range(ord("A"), ord("Z") + 1)}


def _lower(s):
    """ASCII-only lower case: the same length as s (str.lower() turns 'İ' into two characters)."""
    return s.translate(_ASCII_LOWER)


def compare(text, display):
    """None when equal modulo (CRLF->LF, case of keyword words); else a description of the first difference."""
    a = text.replace("\r\n", "\n")
    b = display.replace("\r\n", "\n")   # a CRLF inside a block comment is kept verbatim by the tokens
    if a == b:
        return None
    if len(a) != len(b) or _lower(a) != _lower(b):
        n = min(len(a), len(b))
        i = next((k for k in range(n) if _lower(a[k]) != _lower(b[k])), n)
        return "differs at offset %d: input %r vs display %r" % (i, a[max(0, i - 10):i + 15], b[max(0, i - 10):i + 15])
    # same up to case: every differing position must lie inside a keyword word
    # (the parser splits e.g. `.asserta` into `.assert` `a`, so a keyword is looked for at any offset around k)
    low = _lower(a)
    for k in (k for k in range(len(a)) if a[k] != b[k]):
        ok = False
        for o in range(max(0, k - MAXKW + 1), k + 1):
            for kw in KW_BY_FIRST.get(low[o], ()):
                if o + len(kw) > k and low.startswith(kw, o):
                    ok = True
                    break
            if ok:
                break
        if not ok:
            return "case changed outside a keyword at offset %d: input %r vs display %r" % (k, a[max(0, k - 10):k + 15], b[max(0, k - 10):k + 15])
    return None


def signature(text, why):
    """Signature class of a lossless-parse violation: what kind of difference, near which character."""
    if why.startswith("case changed"):
        return "display|case-outside-keyword"
    if why.startswith("marker"):
        return why
    m = re.search(r"offset (\d+)", why)
    off = int(m.group(1)) if m else 0
    a = text.replace("\r\n", "\n")
    ch = a[off] if off < len(a) else "<eof>"
    cls = ch if ch in ")}\r\0" or ch == "<eof>" else ("non-ascii" if ord(ch[0]) > 126 else ("ctrl" if ord(ch[0]) < 32 else "other"))
    return "display|lost-text-at|%r" % cls


def judge(acc, probe_res, text, origin, with_marker):
    acc.evaluations += 1
    r = probe_res
    if "panic" in r:
        acc.count("panics_seen(C06)")
        return
    diags = r.get("d", [])
    if r.get("stage") == "parse" or diags:
        acc.count("with_diagnostics")
        return
    acc.count("clean")
    acc.nontriv(text)
    disp = r.get("t")
    why = compare(text, disp if disp is not None else "")
    if why is None and with_marker:
        segs = r.get("s") or []
        if not any(MARKER in bytes.fromhex(s[2]) for s in segs):
            why = "marker|build succeeded but the trailing marker statement left no bytes"
    if why:
        acc.violation(signature(text, why), "%s: %s" % (origin, why), {"text": text, "display": disp, "result": {k: v for k, v in r.items() if k != "t"}})


def ask(probe, texts):
    out = []
    for i in range(0, len(texts), 300):
        r = probe.ask({"batch": texts[i:i + 300], "display": True})
        out.extend(r.get("results") or [{"d": [[-1, "harness"]]}] * len(texts[i:i + 300]))
    return out


def shard(idx, n, seed, tier, params):
    acc = Acc()
    probe = Probe()
    rng = rng_for(seed, "c05", idx)
    t_end = time.time() + params["budget"]
    sources = corpus.repo_sources() + corpus.doc_snippets() + corpus.test_snippets()
    fragments = [t for _, t in sources]

    # (a) repository sources as they are (imports are not resolvable in memory: those report diagnostics)
    mine = [s for i, s in enumerate(sources) if i % n == idx]
    for (name, text), r in zip(mine, ask(probe, [t for _, t in mine])):
        judge(acc, r, text, name, False)

    # (a2) statements in code that is parsed but never assembled (the body of a macro that is not invoked, a branch that is not
    #      taken): whatever the parser accepts there without a diagnostic must be reproduced by Display as well
    if idx == 0:
        operands = ["#1,x", "#1 , y", "(1),x", "(1,y)", "1,x,y", "#<v,x", "(1,x),y", "#", "1,", "(1", "a", "#1 2", "1 ,x", "($10) , y", "#-1", "- + 1", "*,x", "#\"s\"", "\"s\",x",
                    "#1 /*c*/ , x", "( 1 ) , x", "#(1),y", "#1,X", "1,Y ", "((1)),y", "(1),y,x", "#1,x // c"]
        dead = []
        for op in operands:
            for mnem in ("lda", "STA", "jmp", "inc", "bne"):
                dead.append(".macro never_zz() {\n    %s %s\n}\n" % (mnem, op))
                dead.append(".if 0 {\n    %s %s\n}\n" % (mnem, op))
        for text, r in zip(dead, ask(probe, [t + MARKER_SRC for t in dead])):
            judge(acc, r, text + MARKER_SRC, "statement in never-assembled code", True)
        acc.count("dead_code_texts", len(dead))

    # (b) complete single-character mutation of short programs
    progs = corpus.SHORT_PROGRAMS
    jobs = []
    for pi, prog in enumerate(progs):
        alphabet = mutate.HOSTILE if tier == "thorough" else mutate.HOSTILE_QUICK
        for mi, (kind, pos, ch, text) in enumerate(mutate.single_char_mutants(prog, alphabet)):
            if (pi * 7919 + mi) % n == idx:
                jobs.append((pi, kind, pos, ch, text))
    if tier != "thorough":
        rng.shuffle(jobs)
        jobs = jobs[:params["mutants"] // n]
    for i in range(0, len(jobs), 1200):
        if time.time() > t_end:
            acc.count("budget_cut")
            break
        chunk = jobs[i:i + 1200]
        texts = [j[4] + MARKER_SRC for j in chunk]
        for j, r in zip(chunk, ask(probe, texts)):
            judge(acc, r, j[4] + MARKER_SRC, "mutant %s@%d %r of short program %d" % (j[1], j[2], j[3], j[0]), True)
            acc.cover("mutation_char_x_context", "%r in %s" % (j[3] or "del", mutate.context_class(progs[j[0]], j[2])))
    if jobs:
        acc.sample({"kind": "single-char mutant", "text": jobs[0][4][:120]})

    # (b2) generated programs in the hostile layout (trivia at every boundary where the grammar takes it)
    from ..gen import prog as P, render
    for k in range(params.get("generated", 0) // n):
        if time.time() > t_end:
            break
        prog = P.generate(rng, {"max_bytes": 200, "top_stmts": 8, "p_test": 0.4})
        try:
            files, _ = render.render_program(prog, render.Hostile(rng))
        except render.SpellError:
            continue
        chunk = [t + MARKER_SRC for name, t in sorted(files.items()) if name == "main.asm"]
        for t, r in zip(chunk, ask(probe, chunk)):
            judge(acc, r, t, "generated program in hostile layout", True)

    # (c) random multi-edit mutants and fragment concatenations of repository sources
    texts = []
    for _ in range(params["random"] // n):
        if rng.random() < 0.5:
            base = rng.choice(fragments)
            if len(base) > 1500:
                a = rng.randrange(len(base) - 1000)
                base = base[a:a + rng.randrange(100, 1000)]
            texts.append(mutate.random_mutant(rng, base, fragments))
        else:
            parts = []
            for _ in range(rng.randrange(2, 5)):
                f = rng.choice(fragments)
                a = rng.randrange(len(f) + 1)
                parts.append(f[a:a + rng.randrange(5, 200)])
            texts.append(rng.choice(["", "\n", " ", "\r\n"]).join(parts))
    for i in range(0, len(texts), 600):
        if time.time() > t_end:
            acc.count("budget_cut")
            break
        chunk = [t + MARKER_SRC for t in texts[i:i + 600]]
        for t, r in zip(chunk, ask(probe, chunk)):
            judge(acc, r, t, "random mutant/concatenation", True)
    if texts:
        acc.sample({"kind": "random", "text": texts[0][:160]})
    probe.close()
    return acc


def main(tier, seed):
    t0 = time.time()
    params = {"budget": 80 if tier == "quick" else 1200, "mutants": 600000 if tier == "quick" else 10 ** 9,
              "random": 150000 if tier == "quick" else 400000,
              "generated": 3000 if tier == "quick" else 60000}
    acc = run_sharded(shard, seed, tier, params)
    return finish(
        "C05", tier, seed, acc, t0,
        rule="texts: every repository source, guide code block and unit-test snippet; generated programs in the hostile layout; every single-character deletion/insertion/"
             "replacement (hostile alphabet of %d characters) at every position of %d short programs (thorough: complete; quick: "
             "seeded sample); random multi-edit mutants and fragment concatenations. Judged only when parse AND build report no "
             "diagnostics: Display(tokens) must equal the text (CRLF->LF, case of keywords) and a marker statement appended at the "
             "end must have left its bytes. Non-trivial = distinct text that parsed and built without diagnostics." % (
                 len(mutate.HOSTILE), len(corpus.SHORT_PROGRAMS)),
        assumptions=["keyword set for case-insensitive comparison: mnemonics, directives, as/from/else, encodings, x/y"])
