"""C02 - a successful build is a fixed point: certificate check of labels, operands and images under the claimed values."""
import os
import re
import time

from ..common import Acc, Probe, TempProject, finish, rng_for, run_mos, run_sharded
from ..gen import prog as P
from ..gen import render
from ..oracle import certcheck

OPS = ["parse", "codegen", "symbols", "vice", "merge"]
KNOB_SETS = [
    {},
    {"p_segments": 0.0, "p_import": 0.0, "top_stmts": 20},                       # single segment, dense references
    {"p_segments": 1.0, "max_segments": 3, "p_relocated": 0.8},                 # multi-segment, relocated
    {"p_segments": 1.0, "max_segments": 3, "p_relocated": 0.5, "p_nested_segment": 0.6, "p_macro": 0.8},   # segment blocks inside scopes, loops and macros
    {"p_macro": 1.0, "max_macros": 3, "p_loop": 1.0, "p_if": 1.0},               # constructs
    {"p_macro": 1.0, "max_macros": 3, "p_if": 1.0, "dead_defs_invisible": True, "p_macro_name_clash": 0.2},
    {"p_segments": 0.0, "p_import": 0.0, "top_stmts": 20, "p_label_const": 0.5},        # constants/variables that follow labels   # names past untaken branches, macro-named labels
    {"p_import": 1.0, "p_segments": 0.2},
    {"p_segments": 0.6, "max_segments": 3, "p_relocated": 0.5, "p_setpc_back": 1.0, "p_macro": 1.0, "p_macro_segment": 0.6},   # `* =` back over written bytes, macros that switch the segment
]


def stmt_desc(st):
    if st is None:
        return None
    return {"kind": st.k, "at": st.marks.get("stmt")}


def classify(f):
    """Signature of a certificate failure: obligation kind + kind of the statement concerned + its context."""
    st = f.stmt
    ctx = []
    if st is not None:
        for a in st.scope.chain():
            ctx.append(a.kind)
    return "cert|%s|%s|in=%s" % (f.kind, st.k if st is not None else "?", ">".join(sorted(set(ctx))))


def one_program(acc, probe, rng, knobs, cli=False):
    try:
        prog = P.generate(rng, knobs)
        files, r = render.render_program(prog)
    except render.SpellError as e:
        acc.count("generator.unspellable")
        return None
    acc.evaluations += 1
    res = probe.ask({"files": files, "ops": OPS, "opts": {"pc": prog.base_pc}})
    if "died" in res or "timeout" in res or "parse" not in res:
        acc.inconc("probe: %r" % (res,))
        return None
    if res["parse"].get("diags"):
        acc.violation("generator|parse-error", "generated program does not parse: %s" % res["parse"]["diags"][0]["msg"], {"files": files, "diag": res["parse"]["diags"][0]})
        return None
    cg = res.get("codegen", {})
    if "panic" in cg:
        acc.count("panic(C06)")
        return None
    if cg.get("diags"):
        acc.count("rejected")
        acc.cover("rejection_reasons", cg["diags"][0]["msg"].split(":")[0][:30].split("$")[0])
        return None
    acc.count("assembled")
    ctx = cg["ctx"]
    verdict, detail, w = certcheck.check(prog, ctx, prog.base_pc)
    passes = cg["passes"]
    acc.cover("pass_counts", passes["n"])
    if verdict == "ood":
        acc.count("out_of_domain")
        return None
    if verdict == "harness":
        acc.inconc("harness: %s" % detail.msg)
        acc.count("harness_problem")
        return None
    nontrivial = passes["n"] >= 3 or passes.get("sym_changes", 0) >= 2
    if nontrivial:
        acc.nontriv(tuple(sorted(files.items())))
    acc.count("programs_with_symbol_changes_after_pass_2" if passes.get("sym_changes", 0) >= 2 else "programs_settled_by_pass_2")
    acc.count("obligations", w.obligations)
    for f in prog.features:
        acc.count("feature." + f)
    if verdict == "fail":
        acc.violation(classify(detail), detail.msg, {"files": files, "base_pc": prog.base_pc, "failure": detail.msg, "stmt": stmt_desc(detail.stmt),
                                                    "passes": passes})
        return None
    # exported VICE symbols are the same addresses
    vice = cg.get("vice", "")
    # ... of the labels that exist in the final pass: a label left over from an earlier pass (under a scope name that is no
    # longer used) is a value from an earlier pass surviving in the exported symbols
    final = max([s.get("pass", 0) for s in ctx["symbols"] if s.get("span")] or [0])
    want = sorted("al C:%X .%s" % (s["val"], s["path"]) for s in ctx["symbols"] if s["ty"] == "Label" and s.get("pass") == final)
    got = sorted(l for l in vice.replace("\r\n", "\n").split("\n") if l)
    if want != got:
        missing = [x for x in want if x not in got][:3]
        extra = [x for x in got if x not in want][:3]
        stale = [x for x in extra if any(("al C:%X .%s" % (s["val"], s["path"])) == x and s.get("pass") != final for s in ctx["symbols"])]
        sig = "vice|stale-label-from-earlier-pass" if stale and not missing and len(stale) == len(extra) else "vice|mismatch"
        acc.violation(sig, "VICE symbol export differs from the labels of the final pass: missing %s, extra %s" % (missing, extra), {"files": files, "vice": vice, "base_pc": prog.base_pc})
    return prog, files, res


def cli_slice(acc, prog, files, res):
    toml = '[build]\nsymbols = ["vice"]\n'
    if prog.base_pc != 0x2000 and not prog.has_segments:
        return  # the CLI always assembles at $2000
    with TempProject(files, toml) as tp:
        r = run_mos(["--no-color", "-e", "Short", "build"], tp.dir)
        acc.count("cli.builds")
        if r["rc"] != 0:
            acc.violation("cli|build-failed", "probe assembled the program but `mos build` failed: %s" % r["out"][-200:], {"files": files, "out": r["out"], "err": r["err"]})
            return
        vs = open(os.path.join(tp.dir, "target", "main.vs")).read().replace("\r\n", "\n")
        anon = lambda t: sorted(re.sub(r"\$scope_\d+", "$scope_N", l) for l in t.replace("\r\n", "\n").split("\n"))  # numbering of anonymous scopes: see C10
        if anon(vs) != anon(res["codegen"]["vice"]):
            acc.violation("cli|vs-differs", ".vs file differs from the library's export", {"files": files, "vs": vs, "lib": res["codegen"]["vice"]})
        banks = res["codegen"].get("merge")
        if banks and len(banks) == 1:
            out = open(os.path.join(tp.dir, "target", "main.prg"), "rb").read()
            want = bytes([banks[0]["start"] & 255, banks[0]["start"] >> 8]) + bytes.fromhex(banks[0]["bytes"])
            if out != want:
                acc.violation("cli|prg-differs", "main.prg differs from the merged image", {"files": files, "got": out.hex()[:200], "want": want.hex()[:200]})


STALE_WITNESS = ".const v = 5\ns: {\n  .if v < 3 { nop } else { .const x = 9 }\n  .byte x\n  .const v = 1\n}\n.const x = 7\n"


def stale_definition_witness(acc, probe):
    """Known finding: what an `.if` branch defined in an early pass (when its condition was still evaluated with an outer
    symbol of the same name) stays in the symbol table after the branch is no longer taken. Final state: inner v = 1, so the
    then-branch is assembled and `x` is the outer constant 7 - the assembler emits the 9 of the abandoned else-branch."""
    acc.evaluations += 1
    r = probe.ask({"files": {"main.asm": STALE_WITNESS}, "ops": ["parse", "codegen"], "opts": {"pc": 0x2000}})
    cg = r.get("codegen", {})
    if cg.get("diags") or "ctx" not in cg:
        acc.inconc("stale-definition witness does not assemble: %r" % (cg.get("diags"),))
        return
    got = "".join(s["bytes"] for s in cg["ctx"]["segments"])
    if got == "ea07":
        acc.count("stale_definition_witness.fixed")
    elif got == "ea09":
        acc.violation("cert|stale-definition-of-untaken-branch", "`.byte x` assembles to 09: the constant of an else-branch that is not taken in the final pass; the fixed point has x = 7",
                      {"files": {"main.asm": STALE_WITNESS}, "bytes": got, "expected": "ea07"})
    else:
        acc.violation("cert|witness|unexpected-bytes", "stale-definition witness assembles to %s (expected ea07)" % got, {"files": {"main.asm": STALE_WITNESS}, "bytes": got})


def shard(idx, n, seed, tier, params):
    acc = Acc()
    probe = Probe()
    rng = rng_for(seed, "c02", idx)
    t_end = time.time() + params["budget"]
    if idx == 0:
        stale_definition_witness(acc, probe)
    for i in range(params["programs"] // n):
        if time.time() > t_end:
            acc.count("budget_cut")
            break
        knobs = KNOB_SETS[i % len(KNOB_SETS)]
        got = one_program(acc, probe, rng, knobs)
        if got and i % 20 == 0:
            cli_slice(acc, *got)
        if got and i < 2:
            acc.sample({"main.asm": got[1]["main.asm"][:700], "passes": got[2]["codegen"]["passes"]["n"]}, cap=2)
    probe.close()
    return acc


def main(tier, seed):
    t0 = time.time()
    params = {"programs": 40000 if tier == "quick" else 800000, "budget": 90 if tier == "quick" else 1500}
    acc = run_sharded(shard, seed, tier, params)
    return finish(
        "C02", tier, seed, acc, t0,
        rule="ProgGen programs (instructions in all memory forms with label/const/param/index operands, data/text, labels with "
             "and without blocks, nested brace scopes, shadowing with super/dotted spellings, `* =`, .align, const/var, 1-3 segments "
             "with and without `pc`, loops, conditionals, macros invoked several times, imports via *, `* as`, specific `as`); segments "
             "start around $00E0-$0100 so that forward references flip zero-page/absolute sizes. Every program that assembles is "
             "walked by the certificate checker (labels, block -/+ symbols, constants, every operand and data item, exact images) "
             "and its VICE export compared; 5% also go through `mos build`. Non-trivial = distinct assembled program that needed >= 3 "
             "passes or whose symbol values changed after pass 2.",
        assumptions=[".align: padding of 0 or n when already aligned are both accepted (the guide only promises alignment)",
                     "-/+ symbols of blocks inside loop bodies are not judged here (see C07)",
                     "programs the assembler rejects (e.g. far branches, non-converging zp/abs choices) are counted, not judged"])
