"""C19 - the debugger reports where the machine really is (DAP over TCP against the real adapter; reference trace from the model)."""
import os
import shutil
import tempfile
import time
from concurrent.futures import ThreadPoolExecutor

from ..common import Acc, finish, rng_for
from ..client.dap import DapClient
from ..client.lsp import LspServer
from ..gen import testgen
from ..oracle import cpu6502


# ---------------------------------------------------------------------------------------------------------------
def gen_program(rng, big, dead=0):
    """A test body with nested counted loops and subroutines; returns (body, source lines, line of every body item).
    dead > 0 appends a subroutine of that many instructions that is never called (lines for breakpoints that are never hit)."""
    body = [("ins", "lda", "imm", rng.randrange(256)), ("ins", "ldy", "imm", rng.randrange(256)), ("ins", "clc", "imp", None)]
    subs = ["sub%d" % i for i in range(rng.randrange(1, 3))]
    nblocks = rng.randrange(2, 4)
    for b in range(nblocks):
        outer = rng.randrange(3, 9) if not big else rng.randrange(30, 90)
        inner = rng.randrange(2, 6) if not big else rng.randrange(20, 60)
        body.append(("ins", "lda", "imm", outer))
        body.append(("ins", "sta", "zp", 0x90 + b))
        body.append(("label", "o%d" % b))
        body.append(("ins", "ldx", "imm", inner))
        body.append(("label", "i%d" % b))
        body.extend(testgen.gen_ops(rng, rng.randrange(1, 4), avoid_x=True))
        if rng.random() < 0.6:
            body.append(("ins", "jsr", "jsr", rng.choice(subs)))
        body.append(("ins", "dex", "imp", None))
        body.append(("ins", "bne", "rel", "i%d" % b))
        body.extend(testgen.gen_ops(rng, rng.randrange(0, 3)))
        body.append(("ins", "dec", "zp", 0x90 + b))
        body.append(("ins", "bne", "rel", "o%d" % b))
    body.append(("ins", "nop", "imp", None))
    body.append(("ins", "brk", "imp", None))
    for s in subs:
        body.append(("label", s))
        ops = testgen.gen_ops(rng, rng.randrange(1, 4), avoid_x=True)
        body.extend(ops)
        body.append(("ins", "rts", "imp", None))
    if dead:
        body.append(("label", "never_called"))
        body.extend([("ins", "nop", "imp", None)] * dead)
        body.append(("ins", "rts", "imp", None))
    # gen_ops may emit zp addresses 0x80-0x83 only: the loop counters at 0x90.. are never touched by them
    lines, where = testgen.render_body(body, {}, {})
    src_lines = ['.test "a" {'] + lines + ["}"]
    line_of = {}
    k = 0
    for i, it in enumerate(body):
        line_of[i] = k + 2          # 1-based line number in the file (line 1 is `.test "a" {`)
        k += 1
    return body, "\n".join(src_lines) + "\n", line_of


def reference_trace(body):
    m = cpu6502.Machine(body, lambda m_, s: True, max_steps=600000)
    end = m.run()
    return end, m


# ---------------------------------------------------------------------------------------------------------------
class Session:
    def __init__(self, src, sched, trace=True, extra_files=None):
        self.dir = tempfile.mkdtemp(prefix="mosverif-c19-")
        open(os.path.join(self.dir, "mos.toml"), "w").write("")
        for name, text in (extra_files or {}).items():
            open(os.path.join(self.dir, name), "w").write(text)
        self.path = os.path.join(self.dir, "main.asm")
        open(self.path, "w").write(src)
        self.trace_file = os.path.join(self.dir, "h2trace.log")
        env = {"MOS_VERIF_TRACE": self.trace_file} if trace else {}
        if sched:
            env["MOS_VERIF_SCHED"] = sched
        self.srv = LspServer(self.dir, env=env)
        self.srv.initialize()
        self.srv.did_open(self.path, src)
        self.srv.barrier()
        self.dap = DapClient(self.srv.port)
        self.ev = 0

    def start(self, breakpoints):
        d = self.dap
        d.request("initialize", {"adapterID": "mos", "linesStartAt1": True, "columnsStartAt1": True})
        r = d.request("launch", {"workspace": self.dir, "testRunner": {"testCaseName": "a"}})
        if not r.get("success"):
            return r
        self.set_breakpoints(breakpoints)
        return d.request("configurationDone", None)

    def set_breakpoints(self, lines):
        return self.dap.request("setBreakpoints", {"source": {"path": self.path}, "breakpoints": [{"line": l} for l in lines]})

    def wait_stop(self, timeout=15.0):
        """Returns "stopped" | "terminated" | None"""
        deadline = time.time() + timeout
        while time.time() < deadline:
            with self.dap.lock:
                evs = self.dap.events[self.ev:]
            for k, (t, e) in enumerate(evs):
                if e.get("event") in ("stopped", "terminated"):
                    self.ev += k + 1
                    return e["event"]
            if self.dap.closed.is_set():
                return None
            time.sleep(0.001)
        return None

    def snapshot(self):
        d = self.dap
        st = d.request("stackTrace", {"threadId": 1})
        regs = d.request("variables", {"variablesReference": 1})
        flags = d.request("variables", {"variablesReference": 2})
        if not all(isinstance(x, dict) and x.get("success") for x in (st, regs, flags)):
            return None
        frames = st["body"]["stackFrames"]
        r = {v["name"]: int(v["value"]) for v in regs["body"]["variables"]}
        f = {v["name"][0]: v["value"] == "true" for v in flags["body"]["variables"]}
        return {"line": frames[0]["line"] if frames else None, "A": r.get("A"), "X": r.get("X"), "Y": r.get("Y"), "CYC": r.get("CYC"),
                "N": f.get("N"), "Z": f.get("Z"), "C": f.get("C"), "V": f.get("V")}

    def phases(self):
        try:
            return sorted({l.split()[-3] for l in open(self.trace_file) if len(l.split()) >= 5})
        except OSError:
            return []

    def close(self):
        try:
            self.dap.close()
        except Exception:
            pass
        self.srv.kill()
        shutil.rmtree(self.dir, ignore_errors=True)


# ---------------------------------------------------------------------------------------------------------------
def run_session(job):
    """One debug session. Returns a dict of observations and violations."""
    seed, big, sched, kind = job
    import random
    rng = random.Random(seed)
    out = {"violations": [], "inconclusive": [], "counts": {}, "cover": set(), "sample": None, "evaluations": 0}

    def count(k, n=1):
        out["counts"][k] = out["counts"].get(k, 0) + n

    many_breakpoints = kind == "race" and rng.random() < 0.5
    for _ in range(30):
        body, src, line_of = gen_program(rng, big, dead=rng.choice([100, 250, 400]) if many_breakpoints else 0)
        end, m = reference_trace(body)
        if end[0] == "brk" and (len(m.trace) > (3000 if big else 60)):
            break
    else:
        out["inconclusive"].append("no terminating program generated")
        return out
    trace = m.trace
    by_cyc = {t[8]: i for i, t in enumerate(trace)}
    lines_in_trace = sorted({line_of[t[0]] for t in trace})

    def expect(i):
        t = trace[i]
        return {"line": line_of[t[0]], "A": t[1], "X": t[2], "Y": t[3], "N": t[4], "V": t[5], "Z": t[6], "C": t[7], "CYC": t[8]}

    def violation(sig, msg, extra=None):
        w = {"source": src, "job": list(job), "log": [(round(a, 4), b, c, str(d)[:200]) for a, b, c, d in ses.dap.log[-40:]]}
        if extra:
            w.update(extra)
        out["violations"].append((sig, msg, w))

    ses = Session(src, sched, trace=not big)
    try:
        nbp = rng.choice([0, 1, 1, 2, 3])
        bps = sorted(rng.sample(lines_in_trace, min(nbp, len(lines_in_trace))))
        if kind == "calibrate":
            bps = [lines_in_trace[0]]
        if many_breakpoints:
            # hundreds of breakpoints on lines that are never executed: the machine thread has that many to look at before
            # every instruction, which is when a pause can slip in
            bps = sorted(set(bps) | {line_of[i] for i, it in enumerate(body) if it[0] == "ins" and line_of[i] > max(lines_in_trace)})
            out["cover"].add("hundreds-of-breakpoints")
        r = ses.start(bps)
        if not isinstance(r, dict) or not r.get("success"):
            out["inconclusive"].append("session did not start: %r %s" % (r, ses.srv.stderr[-200:]))
            return out
        out["evaluations"] += 1
        # the machine is running now: first stop is the first trace index whose line has a breakpoint (or the test ends)
        cur = None                     # index in the reference trace where the machine is stopped
        resume_from = -1               # the machine was released at this index (exclusive lower bound for the next breakpoint stop)
        pause_in_flight = False
        step_in_flight = False
        pending = "run"
        stopped_by_breakpoint = False
        steps = 0
        max_actions = 150 if kind == "calibrate" else (rng.randrange(30, 50) if many_breakpoints else rng.randrange(6, 25))
        while steps < max_actions:
            steps += 1
            if pending == "run" and not pause_in_flight and rng.random() < (0.9 if many_breakpoints else 0.5 if kind == "race" else 0.15):
                # a pause arriving at an arbitrary moment of the run loop
                time.sleep(rng.choice([0, 0.0005, 0.002, 0.01, 0.03]))
                # (a step request that arrives while the machine runs freely ends the run like a pause does)
                stopper = "pause" if rng.random() < 0.65 else rng.choice(["next", "stepIn", "stepOut"])
                rp = ses.dap.request(stopper, {"threadId": 1})
                pause_in_flight = True
                step_in_flight = stopper != "pause"
                count("pauses_sent" if stopper == "pause" else "steps_sent_while_running")
                out["cover"].add("while-running/" + stopper)
                if not isinstance(rp, dict) or "success" not in rp:
                    violation("no-response|%s" % stopper, "%s got no response: %r" % (stopper, rp))
                    return out
            if pending == "run" and rng.random() < 0.3:
                # queries while the machine runs must be answered too
                q = rng.choice([("variables", {"variablesReference": 1}), ("stackTrace", {"threadId": 1}), ("evaluate", {"expression": "cpu.a"}), ("threads", None)])
                rq = ses.dap.request(q[0], q[1])
                out["cover"].add("while-running/" + q[0])
                if not isinstance(rq, dict) or "success" not in rq:
                    violation("no-response|%s|while-running" % q[0], "%s got no response while running: %r" % (q[0], rq))
                    return out
            what = ses.wait_stop()
            if what is None:
                alive = ses.srv.alive()
                err = ses.srv.stderr[-300:].decode("utf8", "replace")
                if "panicked" in err:
                    violation("adapter-panicked|%s" % pending, "after %s: %s" % (pending, err[-200:].replace("\n", " | ")))
                else:
                    out["inconclusive"].append("no stopped/terminated event after %s (alive=%s)" % (pending, alive))
                return out
            if what == "terminated":
                # legal only if no breakpoint line lies ahead in the reference trace
                ahead = [i for i in range(resume_from + 1, len(trace)) if line_of[trace[i][0]] in bps]
                if pending in ("run",) and ahead and not pause_in_flight:
                    violation("breakpoint-run-over|terminated", "the test ran to its end although line %d (breakpoint) is executed at trace index %d" % (line_of[trace[ahead[0]][0]], ahead[0]),
                              {"breakpoints": bps, "resume_from": resume_from})
                count("sessions_terminated_normally")
                break
            # ---- R1: halted, frame consistent with CPU state, stable
            s1 = ses.snapshot()
            time.sleep(0.02 if kind == "calibrate" else 0.04)
            s2 = ses.snapshot()
            out["evaluations"] += 1
            if s1 is None or s2 is None:
                violation("no-response|snapshot", "stackTrace/variables not answered at a stop")
                return out
            count("stops_checked")
            ctx = "%s%s" % (pending if isinstance(pending, str) else pending[2], "+pause" if pause_in_flight else "")
            if s1 != s2:
                violation("not-halted|%s" % ctx, "state changed after the stopped event without a resume: %r -> %r" % (s1, s2), {"first": s1, "second": s2})
                return out
            i = by_cyc.get(s1["CYC"])
            if i is None:
                violation("state-not-on-reference-trace|%s" % ctx, "CYC=%s is not the cycle count of any instruction boundary of the uninterrupted run" % s1["CYC"], {"snapshot": s1})
                return out
            e = expect(i)
            if {k: s1[k] for k in ("A", "X", "Y", "N", "Z", "C", "V")} != {k: e[k] for k in ("A", "X", "Y", "N", "Z", "C", "V")}:
                violation("registers-differ-from-reference|%s" % ctx, "at CYC=%d the uninterrupted run has %r, the debugger shows %r" % (s1["CYC"], e, s1))
                return out
            if s1["line"] != e["line"]:
                violation("stale-frame|%s" % ctx, "stopped event at CYC=%d (line %d of the reference run) but the reported frame is line %s" % (s1["CYC"], e["line"], s1["line"]),
                          {"snapshot": s1, "expected": e})
                return out
            # ---- R2 / R3: is this the right place to stop?
            if pending == "run":
                ahead = [j for j in range(resume_from + 1, len(trace)) if line_of[trace[j][0]] in bps]
                first_bp = ahead[0] if ahead else None
                if pause_in_flight and step_in_flight:
                    # next/stepOut deliberately ignore breakpoints: where such a step ends when it is requested in mid-run is
                    # not fixed by the property; the stop itself has been checked above (halted, frame = machine state)
                    count("stops_after_step_while_running")
                elif pause_in_flight:
                    if first_bp is not None and i > first_bp:
                        violation("breakpoint-run-over|with-pause", "stopped at trace index %d, but the breakpoint at index %d (line %d) lies before it" % (i, first_bp, line_of[trace[first_bp][0]]))
                        return out
                    count("pauses_landed_mid_run" if (first_bp is None or i < first_bp) else "pauses_after_breakpoint_stop")
                else:
                    # a machine that was stopped by a step or a pause ON a breakpoint line reports that breakpoint when it is
                    # resumed (it has not "stopped there first" yet): stopping at the resume index itself is legitimate then
                    if resume_from >= 0 and i == resume_from and line_of[trace[i][0]] in bps and not stopped_by_breakpoint:
                        count("breakpoint_reported_on_resume")
                    elif first_bp is None or i != first_bp:
                        violation("breakpoint-run-over|continue" if (first_bp is not None and i > first_bp) else "stopped-without-reason",
                                  "resumed at index %d with breakpoints %s: stopped at index %d (line %d), expected index %s" % (resume_from, bps, i, e["line"], first_bp))
                        return out
                    count("breakpoint_stops_exact")
            elif pending[0] == "step":
                want = pending[1]
                if i != want:
                    violation("step-wrong|%s" % pending[2], "%s from index %d (line %d) must stop at index %d (line %d), stopped at index %d (line %d)" % (
                        pending[2], cur, line_of[trace[cur][0]], want, line_of[trace[want][0]], i, e["line"]))
                    return out
                count("steps_exact." + pending[2])
            out["cover"].add("stop-after/" + (ctx if isinstance(pending, str) else pending[2] + ("+pause" if pause_in_flight else "")))
            stopped_by_breakpoint = pending == "run" and not pause_in_flight and line_of[trace[i][0]] in bps
            cur = i
            pause_in_flight = False
            step_in_flight = False
            # a pause request that is still in flight may produce a second stopped event: drain what is there
            time.sleep(0.002)
            # ---- choose the next action
            if kind == "calibrate":
                act = "stepIn"
            elif many_breakpoints:
                # (many rounds of continue and pause: the breakpoints stay as they are)
                act = rng.choice(["continue"] * 7 + ["stepIn", "next", "evaluate"])
            else:
                act = rng.choice(["continue", "continue", "stepIn", "next", "stepOut", "evaluate", "setBreakpoints"])
            ins = body[trace[cur][0]]
            depth = trace[cur][9]
            if act == "evaluate":
                rq = ses.dap.request("evaluate", {"expression": "cpu.x"})
                if not (isinstance(rq, dict) and rq.get("success") and rq["body"]["result"] == str(e["X"])):
                    violation("evaluate-differs", "evaluate cpu.x = %r, the machine has X=%d" % (rq, e["X"]))
                    return out
                count("evaluates_ok")
                act = "stepIn"
            if act == "setBreakpoints":
                nbp = rng.choice([0, 1, 2])
                bps = sorted(rng.sample(lines_in_trace, min(nbp, len(lines_in_trace))))
                ses.set_breakpoints(bps)
                act = "continue"
            if act == "stepOut" and depth == 0:
                act = "next"
            if cur + 1 >= len(trace):
                break
            # everything received up to now belongs to this stop (a pause that arrives after a breakpoint stop announces the same
            # stop a second time): only events after the resume request count for the next stop
            ses.ev = ses.dap.event_count()
            if act == "continue":
                resume_from = cur
                ses.dap.request("continue", {"threadId": 1})
                pending = "run"
            elif act == "stepIn":
                if ins[1] == "brk":
                    break
                ses.dap.request("stepIn", {"threadId": 1})
                pending = ("step", cur + 1, "stepIn")
            elif act == "next":
                if ins[1] == "brk":
                    break
                want = cur + 1
                if ins[1] == "jsr":
                    want = next(j for j in range(cur + 1, len(trace)) if trace[j][9] == depth and m.addr[trace[j][0]] == m.addr[trace[cur][0]] + 3)
                ses.dap.request("next", {"threadId": 1})
                pending = ("step", want, "next" + ("-over-jsr" if ins[1] == "jsr" else ""))
            else:
                want = next((j for j in range(cur + 1, len(trace)) if trace[j][9] == depth - 1), None)
                if want is None:
                    break
                in_push = any(body[trace[j][0]][1] == "pha" for j in range(max(0, cur - 2), cur)) and body[trace[cur][0]][1] != "pla" and \
                    any(body[trace[j][0]][1] == "pla" for j in range(cur, min(len(trace), cur + 3)))
                ses.dap.request("stepOut", {"threadId": 1})
                pending = ("step", want, "stepOut" + ("-with-pushed-byte" if in_push else ""))
        out["cover"] |= {"phase/" + p for p in ses.phases()}
        out["sample"] = {"kind": kind, "sched": sched, "breakpoints": bps, "trace_length": len(trace), "source": src[:300]}
        # ---- R4: the session can be ended properly
        rd = ses.dap.request("disconnect", {}, timeout=5)
        if not isinstance(rd, dict) or "success" not in rd:
            out["inconclusive"].append("disconnect not answered: %r" % (rd,))
        return out
    finally:
        ses.close()


SELF_BRANCH = '.test "a" {\n    lda #1\n    clc\nwait:\n    bcc wait\n    brk\n}\n'


def self_branch_session(_):
    """A breakpoint on an instruction that branches to itself must be hit on every iteration. Judged by observed progress of
    the cycle counter while no stopped event arrives - not by a timer."""
    out = {"violations": [], "inconclusive": [], "counts": {}, "cover": {"self-branch-witness"}, "sample": None, "evaluations": 1}
    ses = Session(SELF_BRANCH, None, trace=False)
    try:
        r = ses.start([5])
        if not isinstance(r, dict) or not r.get("success") or ses.wait_stop(10) != "stopped":
            out["inconclusive"].append("self-branch witness did not reach its breakpoint")
            return out
        first = ses.snapshot()
        for hit in range(3):
            ses.ev = ses.dap.event_count()
            ses.dap.request("continue", {"threadId": 1})
            what = ses.wait_stop(1.0)
            if what == "stopped":
                snap = ses.snapshot()
                out["counts"]["self_branch_hits"] = out["counts"].get("self_branch_hits", 0) + 1
                continue
            a = ses.dap.request("variables", {"variablesReference": 1})
            time.sleep(0.05)
            b = ses.dap.request("variables", {"variablesReference": 1})
            cyc = lambda x: int([v["value"] for v in x["body"]["variables"] if v["name"] == "CYC"][0])
            if isinstance(a, dict) and a.get("success") and isinstance(b, dict) and b.get("success") and cyc(b) > cyc(a) > first["CYC"]:
                out["violations"].append(("breakpoint-run-over|self-branch", "the machine keeps executing the instruction at the breakpoint address (CYC %d -> %d) "
                                          "without another stopped event" % (cyc(a), cyc(b)), {"source": SELF_BRANCH, "breakpoint_line": 5}))
            else:
                out["inconclusive"].append("self-branch witness: no stop and no observed progress")
            return out
        return out
    finally:
        ses.close()


ENDLESS = '.test "a" {\n    ldx #0\nloop:\n    inx\n    nop\n    nop\n    jmp loop\n}\n'     # one round of the loop = 9 cycles


def _cyc(resp):
    return int([v["value"] for v in resp["body"]["variables"] if v["name"] == "CYC"][0])


def breakpoint_while_running_session(sched):
    """A breakpoint that is set while the machine runs freely must stop it the next time the line is executed. Judged by the
    cycle counter: once setBreakpoints has been answered, a machine that is seen many rounds of the loop later without a stopped
    event has executed the line with the breakpoint installed."""
    out = {"violations": [], "inconclusive": [], "counts": {}, "cover": {"breakpoint-while-running"}, "sample": None, "evaluations": 1}
    ses = Session(ENDLESS, sched, trace=False)
    try:
        r = ses.start([])
        if not isinstance(r, dict) or not r.get("success"):
            out["inconclusive"].append("endless-loop session did not start")
            return out
        time.sleep(0.05)
        line = 4 if sched is None or hash(sched) % 2 else 5
        rb = ses.set_breakpoints([line])
        if not isinstance(rb, dict) or not rb.get("success"):
            out["violations"].append(("no-response|setBreakpoints|while-running", "setBreakpoints while running: %r" % (rb,), {"source": ENDLESS}))
            return out
        a = ses.dap.request("variables", {"variablesReference": 1})
        if not (isinstance(a, dict) and a.get("success")):
            out["inconclusive"].append("no register read after setBreakpoints")
            return out
        cyc0 = _cyc(a)
        for _ in range(200):
            what = ses.wait_stop(0.02)
            if what == "stopped":
                snap = ses.snapshot()
                out["counts"]["breakpoint_while_running_hits"] = 1
                if snap is None or snap["line"] != line:
                    out["violations"].append(("stale-frame|breakpoint-while-running", "stopped by the breakpoint on line %d but the frame says %r" % (line, snap), {"source": ENDLESS}))
                # and removing it while stopped, then continuing, must let the machine run on
                ses.set_breakpoints([])
                ses.ev = ses.dap.event_count()
                ses.dap.request("continue", {"threadId": 1})
                b1 = ses.dap.request("variables", {"variablesReference": 1})
                time.sleep(0.05)
                b2 = ses.dap.request("variables", {"variablesReference": 1})
                if ses.wait_stop(0.05) == "stopped" and not (isinstance(b2, dict) and b2.get("success") and _cyc(b2) > _cyc(b1) + 900):
                    out["violations"].append(("stopped-without-reason|removed-breakpoint", "a removed breakpoint stopped the machine again", {"source": ENDLESS}))
                return out
            if what == "terminated":
                out["inconclusive"].append("endless loop terminated")
                return out
            b = ses.dap.request("variables", {"variablesReference": 1})
            if isinstance(b, dict) and b.get("success") and _cyc(b) > cyc0 + 9 * 1000:
                out["violations"].append(("breakpoint-run-over|set-while-running", "breakpoint on line %d was installed at CYC <= %d; at CYC %d (more than 1000 rounds of the "
                                          "9-cycle loop later) the machine is still running and no stopped event has arrived" % (line, cyc0, _cyc(b)),
                                          {"source": ENDLESS, "breakpoint_line": line, "sched": sched}))
                return out
        out["inconclusive"].append("breakpoint while running: neither a stop nor enough observed progress")
        return out
    finally:
        ses.close()


MULTI = ('.macro bump() {\n    iny\n    nop\n}\n.test "a" {\n    ldx #0\n    ldy #0\n    .loop 3 {\n        inx\n        nop\n    }\n'
         '    bump()\n    bump()\n    txa\n    brk\n}\n')
# line numbers: iny = 2 (macro body, executed twice), inx = 9 (loop body, assembled three times), txa = 14


def multi_address_session(sched):
    """A breakpoint on a source line that is assembled at several addresses (loop body, macro body) stops at every one of them."""
    out = {"violations": [], "inconclusive": [], "counts": {}, "cover": {"breakpoint-on-multiply-assembled-line"}, "sample": None, "evaluations": 1}
    ses = Session(MULTI, sched, trace=False)
    try:
        r = ses.start([9, 2])
        if not isinstance(r, dict) or not r.get("success"):
            out["inconclusive"].append("multi-address session did not start")
            return out
        expected = [(9, "X", 0), (9, "X", 1), (9, "X", 2), (2, "Y", 0), (2, "Y", 1)]
        for k, (line, reg, val) in enumerate(expected):
            what = ses.wait_stop(10)
            if what == "terminated":
                out["violations"].append(("breakpoint-run-over|multiply-assembled-line", "the test ended after %d of 5 breakpoint stops: line %d is executed %s more time(s) "
                                          "(expected next stop: line %d with %s=%d)" % (k, line, "one or", line, reg, val), {"source": MULTI, "breakpoints": [9, 2], "sched": sched}))
                return out
            if what is None:
                out["inconclusive"].append("multi-address: no event")
                return out
            snap = ses.snapshot()
            out["evaluations"] += 1
            if snap is None:
                out["inconclusive"].append("multi-address: no snapshot")
                return out
            if snap["line"] != line or snap[reg] != val:
                out["violations"].append(("breakpoint-run-over|multiply-assembled-line" if (snap["line"], snap.get(reg)) in [(l, v) for l, r_, v in expected[k + 1:] if r_ == reg] or snap["line"] != line
                                          else "registers-differ-from-reference|multiply-assembled-line",
                                          "stop %d: expected line %d with %s=%d, the debugger shows line %s with %s=%s" % (k + 1, line, reg, val, snap["line"], reg, snap.get(reg)),
                                          {"source": MULTI, "breakpoints": [9, 2], "snapshot": snap}))
                return out
            # watch expressions are evaluated again at every stop (same address, other register values)
            ev = ses.dap.request("evaluate", {"expression": "cpu.%s" % reg.lower()})
            if not (isinstance(ev, dict) and ev.get("success") and ev["body"]["result"] == str(val)):
                out["violations"].append(("evaluate-differs|repeated-stop", "stop %d at line %d: evaluate cpu.%s = %r, the registers say %s=%d" % (
                    k + 1, line, reg.lower(), (ev.get("body") or {}).get("result") if isinstance(ev, dict) else ev, reg, val), {"source": MULTI, "snapshot": snap}))
                return out
            out["counts"]["multi_address_stops"] = out["counts"].get("multi_address_stops", 0) + 1
            ses.ev = ses.dap.event_count()
            ses.dap.request("continue", {"threadId": 1})
        if ses.wait_stop(10) != "terminated":
            out["violations"].append(("stopped-without-reason|multiply-assembled-line", "a sixth stop although the lines with breakpoints are executed five times", {"source": MULTI}))
        return out
    finally:
        ses.close()


PUSHED = ('.test "a" {\n    ldx #0\n    jsr sub\n    inx\n    jsr sub\n    inx\n    brk\nsub:\n    pha\n    lda #7\n    nop\n    pla\n    rts\n}\n')
# lines: jsr sub = 3 and 5, inx = 4 and 6, nop (between pha and pla) = 11


def stepout_pushed_session(sched):
    """stepOut while the subroutine has a byte on the stack returns to the instruction behind the call (both times)."""
    out = {"violations": [], "inconclusive": [], "counts": {}, "cover": {"stepOut-with-pushed-byte-witness"}, "sample": None, "evaluations": 1}
    ses = Session(PUSHED, sched, trace=False)
    try:
        r = ses.start([11])
        if not isinstance(r, dict) or not r.get("success"):
            out["inconclusive"].append("stepOut session did not start")
            return out
        for k, (ret_line, x) in enumerate([(4, 0), (6, 1)]):
            if ses.wait_stop(10) != "stopped":
                out["inconclusive"].append("stepOut witness: breakpoint in the subroutine not reached")
                return out
            snap = ses.snapshot()
            if snap is None or snap["line"] != 11:
                out["inconclusive"].append("stepOut witness: unexpected stop %r" % (snap,))
                return out
            ses.ev = ses.dap.event_count()
            ses.dap.request("stepOut", {"threadId": 1})
            what = ses.wait_stop(10)
            snap = ses.snapshot() if what == "stopped" else None
            out["evaluations"] += 1
            if what != "stopped" or snap is None or snap["line"] != ret_line or snap["X"] != x:
                out["violations"].append(("step-wrong|stepOut-with-pushed-byte", "stepOut from between PHA and PLA (call %d) must stop at line %d with X=%d; got %s %r" % (
                    k + 1, ret_line, x, what, snap), {"source": PUSHED, "sched": sched}))
                return out
            out["counts"]["stepout_pushed_ok"] = out["counts"].get("stepout_pushed_ok", 0) + 1
            ses.ev = ses.dap.event_count()
            ses.dap.request("continue", {"threadId": 1})
        return out
    finally:
        ses.close()


PIPELINED = ('.test "a" {\n    ldy #0\nl:\n    jsr delay\n    iny\n    jmp l\ndelay:\n    ldx #200\nd:\n    dex\n    bne d\n    rts\n}\n')
# lines: jsr delay = 4, iny = 5, jmp l = 6


def pipelined_steps_session(job):
    """A client that does not wait for the answer to one step request before it sends the next (a key held down): every request is
    answered, and when the burst is over the machine is where that many steps lead. Three `next` are one round of the loop."""
    n_steps, sched = job
    out = {"violations": [], "inconclusive": [], "counts": {}, "cover": {"pipelined-step-requests"}, "sample": None, "evaluations": 1}
    ses = Session(PIPELINED, sched, trace=False)
    try:
        r = ses.start([4])
        if not isinstance(r, dict) or not r.get("success") or ses.wait_stop(10) != "stopped":
            out["inconclusive"].append("pipelined-steps session did not start")
            return out
        seqs = [ses.dap.send("next", {"threadId": 1}) for _ in range(n_steps)]
        last = ses.dap.wait_response(seqs[-1], 60)
        if not isinstance(last, dict) or "success" not in last:
            # judged by the state of the process, not by the watchdog: a server whose threads all sleep will never answer
            state = threads_all_sleeping(ses.srv.p.pid)
            if state:
                out["violations"].append(("no-response|next|pipelined-burst", "%d pipelined `next` requests: the last one was never answered and every thread of the server is asleep" % n_steps,
                                          {"source": PIPELINED, "requests": n_steps, "sched": sched}))
            else:
                out["inconclusive"].append("pipelined burst: no answer to the last request yet, server still computing")
            return out
        time.sleep(0.05)
        snap = ses.snapshot()
        out["evaluations"] += 1
        if snap is None:
            out["violations"].append(("no-response|snapshot|pipelined-burst", "stackTrace/variables not answered after %d pipelined steps" % n_steps, {"source": PIPELINED}))
            return out
        want_line = [4, 5, 6][n_steps % 3]
        want_y = (n_steps // 3 + (1 if n_steps % 3 == 2 else 0)) & 255
        if snap["line"] != want_line or snap["Y"] != want_y:
            out["violations"].append(("step-wrong|pipelined-burst", "after %d pipelined `next` requests the machine must be at line %d with Y=%d; the debugger shows line %s with Y=%s" % (
                n_steps, want_line, want_y, snap["line"], snap["Y"]), {"source": PIPELINED, "snapshot": snap, "sched": sched}))
            return out
        out["counts"]["pipelined_steps_answered"] = n_steps
        return out
    finally:
        ses.close()


RECURSIVE = ('.test "a" {\n    ldx #3\n    ldy #0\n    jsr rec\n    brk\nrec:\n    dex\n    beq done\n    jsr rec\n    iny\ndone:\n    rts\n}\n')
# lines: jsr rec (inner) = 9, iny = 10


def recursive_next_session(sched):
    """`next` on a call of a subroutine that calls itself: the step ends behind THIS call (when the stack is back where it was),
    not when a deeper invocation passes the same address."""
    out = {"violations": [], "inconclusive": [], "counts": {}, "cover": {"next-over-recursive-call"}, "sample": None, "evaluations": 1}
    ses = Session(RECURSIVE, sched, trace=False)
    try:
        r = ses.start([9])
        if not isinstance(r, dict) or not r.get("success") or ses.wait_stop(10) != "stopped":
            out["inconclusive"].append("recursive-next session did not start")
            return out
        snap = ses.snapshot()
        if snap is None or snap["line"] != 9 or snap["X"] != 2:
            out["inconclusive"].append("recursive-next: unexpected first stop %r" % (snap,))
            return out
        ses.ev = ses.dap.event_count()
        ses.dap.request("next", {"threadId": 1})
        what = ses.wait_stop(10)
        snap = ses.snapshot() if what == "stopped" else None
        out["evaluations"] += 1
        if what != "stopped" or snap is None or snap["line"] != 10 or snap["Y"] != 1 or snap["X"] != 0:
            out["violations"].append(("step-wrong|next-over-recursive-call", "`next` on `jsr rec` (X=2, Y=0) must stop behind that call at line 10 with X=0, Y=1 (the deeper "
                                      "invocations have run); got %s %r" % (what, snap), {"source": RECURSIVE, "sched": sched, "snapshot": snap}))
            return out
        out["counts"]["recursive_next_ok"] = 1
        return out
    finally:
        ses.close()


TWO_FILES_MAIN = '.import * from "other.asm"\n.test "a" {\n    ldx #0\n    jsr sub\n    inx\n    jsr sub\n    brk\n}\n'
TWO_FILES_OTHER = "sub:\n    iny\n    rts\n"
# main.asm: inx = 5; other.asm: iny = 2


def two_file_breakpoints_session(sched):
    """A client sets breakpoints with one request per source file: those of the other files stay."""
    out = {"violations": [], "inconclusive": [], "counts": {}, "cover": {"breakpoints-in-two-files"}, "sample": None, "evaluations": 1}
    ses = Session(TWO_FILES_MAIN, sched, trace=False, extra_files={"other.asm": TWO_FILES_OTHER})
    try:
        d = ses.dap
        d.request("initialize", {"adapterID": "mos", "linesStartAt1": True, "columnsStartAt1": True})
        r = d.request("launch", {"workspace": ses.dir, "testRunner": {"testCaseName": "a"}})
        if not isinstance(r, dict) or not r.get("success"):
            out["inconclusive"].append("two-file session did not launch: %r" % (r,))
            return out
        other = os.path.join(ses.dir, "other.asm")
        order = [(ses.path, [5]), (other, [2])]
        if sched is not None and hash(sched) % 2:
            order.reverse()
        for path, lines in order:
            d.request("setBreakpoints", {"source": {"path": path}, "breakpoints": [{"line": l} for l in lines]})
        d.request("configurationDone", None)
        expected = [("other.asm", 2, 0), ("main.asm", 5, 0), ("other.asm", 2, 1)]
        for k, (fname, line, x) in enumerate(expected):
            what = ses.wait_stop(10)
            if what == "terminated":
                out["violations"].append(("breakpoint-run-over|breakpoints-in-two-files", "the test ended after %d of 3 stops: the breakpoint at %s:%d was run over "
                                          "(breakpoints were set with one request per file, %s first)" % (k, fname, line, os.path.basename(order[0][0])),
                                          {"main.asm": TWO_FILES_MAIN, "other.asm": TWO_FILES_OTHER, "sched": sched}))
                return out
            if what is None:
                out["inconclusive"].append("two-file session: no event")
                return out
            st = d.request("stackTrace", {"threadId": 1})
            frames = (st.get("body") or {}).get("stackFrames") or []
            regs = d.request("variables", {"variablesReference": 1})
            xs = [int(v["value"]) for v in (regs.get("body") or {}).get("variables", []) if v["name"] == "X"]
            got = (os.path.basename(((frames[0].get("source") or {}).get("path")) or "?"), frames[0]["line"], xs[0] if xs else None) if frames else None
            out["evaluations"] += 1
            if got != (fname, line, x):
                out["violations"].append(("breakpoint-run-over|breakpoints-in-two-files" if got in expected[k + 1:] else "stale-frame|breakpoints-in-two-files",
                                          "stop %d: expected %s:%d with X=%d, the debugger shows %r" % (k + 1, fname, line, x, got),
                                          {"main.asm": TWO_FILES_MAIN, "other.asm": TWO_FILES_OTHER, "sched": sched}))
                return out
            out["counts"]["two_file_stops"] = out["counts"].get("two_file_stops", 0) + 1
            ses.ev = d.event_count()
            d.request("continue", {"threadId": 1})
        return out
    finally:
        ses.close()


def threads_all_sleeping(pid):
    """True when two samples of /proc one second apart show every thread sleeping with no CPU time consumed in between."""
    def sample():
        res = []
        try:
            for tid in os.listdir("/proc/%d/task" % pid):
                f = open("/proc/%d/task/%s/stat" % (pid, tid)).read().rsplit(")", 1)[1].split()
                res.append((tid, f[0], int(f[11]) + int(f[12])))
        except OSError:
            return None
        return sorted(res)
    a = sample()
    time.sleep(1.0)
    b = sample()
    return a is not None and a == b and all(t[1] in "SD" for t in b)


def segment_walk_program(rng):
    """A test whose code lies in three blocks of two or three segments, written in a random order at random addresses: the bytes
    are not emitted in ascending address order. Returns (source, [(line, X, Y) at every instruction boundary of the run])."""
    names = ["sa", "sb", "sc"][:rng.choice([2, 3])]
    starts = rng.sample([0x2000, 0x2800, 0x3000, 0x4000, 0x6000, 0xc000], len(names))
    seg_of = {"main": names[0], "sub": names[1], "tail": names[-1] if rng.random() < 0.5 else names[0]}
    blocks = {"main": ['.test "a" {', "    ldx #1", "    jsr low", "    inx", "    jmp tail", "}"],
              "sub": ["low:", "    iny", "    rts"],
              "tail": ["tail:", "    dex", "    brk"]}
    order = ["main", "sub", "tail"]
    rng.shuffle(order)
    lines = ['.define segment { name = "%s" start = $%04x }' % (n, a) for n, a in zip(names, starts)]
    at = {}
    for b in order:
        lines.append('.segment "%s" {' % seg_of[b])
        for l in blocks[b]:
            lines.append(l)
            at[l.strip()] = len(lines)
        lines.append("}")
    walk = [("ldx #1", 0, 0), ("jsr low", 1, 0), ("iny", 1, 0), ("rts", 1, 1), ("inx", 1, 1), ("jmp tail", 2, 1), ("dex", 2, 1), ("brk", 1, 1)]
    return "\n".join(lines) + "\n", [(at[t], x, y) for t, x, y in walk]


def segment_walk_session(job):
    """Single-steps (or runs from breakpoint to breakpoint) through code that is spread over several segments."""
    seed, sched = job
    import random
    rng = random.Random(seed)
    src, walk = segment_walk_program(rng)
    out = {"violations": [], "inconclusive": [], "counts": {}, "cover": {"code-spread-over-segments"}, "sample": None, "evaluations": 1}
    by_breakpoints = rng.random() < 0.4
    ses = Session(src, sched, trace=False)
    try:
        r = ses.start(sorted({l for l, _, _ in walk}) if by_breakpoints else [walk[0][0]])
        if not isinstance(r, dict) or not r.get("success"):
            out["inconclusive"].append("segment-walk session did not start: %r" % (r,))
            return out
        for k, (line, x, y) in enumerate(walk):
            what = ses.wait_stop(10)
            if what != "stopped":
                if what == "terminated":
                    out["violations"].append(("breakpoint-run-over|code-spread-over-segments" if by_breakpoints else "step-wrong|code-spread-over-segments",
                                              "the test ended before stop %d (line %d)" % (k + 1, line), {"source": src, "by_breakpoints": by_breakpoints}))
                else:
                    out["inconclusive"].append("segment walk: no event")
                return out
            snap = ses.snapshot()
            out["evaluations"] += 1
            if snap is None:
                out["inconclusive"].append("segment walk: no snapshot")
                return out
            if (snap["X"], snap["Y"]) != (x, y):
                out["violations"].append(("registers-differ-from-reference|code-spread-over-segments", "stop %d: the machine should be at line %d with X=%d Y=%d; the debugger shows %r" % (
                    k + 1, line, x, y, snap), {"source": src, "snapshot": snap, "by_breakpoints": by_breakpoints}))
                return out
            if snap["line"] != line:
                out["violations"].append(("stale-frame|code-spread-over-segments", "stop %d: the machine is at line %d (X=%d Y=%d) but the reported frame is line %s" % (
                    k + 1, line, x, y, snap["line"]), {"source": src, "snapshot": snap, "by_breakpoints": by_breakpoints}))
                return out
            out["counts"]["segment_walk_stops"] = out["counts"].get("segment_walk_stops", 0) + 1
            if k + 1 == len(walk):
                break
            ses.ev = ses.dap.event_count()
            ses.dap.request("continue" if by_breakpoints else "stepIn", {"threadId": 1})
        out["sample"] = {"kind": "segment-walk", "source": src}
        return out
    finally:
        ses.close()


def main(tier, seed):
    t0 = time.time()
    rng = rng_for(seed, "c19")
    n = 160 if tier == "quick" else 1600
    jobs = []
    for k in range(n):
        kind = ["calibrate", "race", "race", "mixed"][k % 4]
        sched = [None, "%d,50" % rng.randrange(10 ** 6), "%d,2000" % rng.randrange(10 ** 6)][k % 3]
        # long-running programs (so that a pause lands mid-run) only without the coarse 2 ms perturbation
        big = kind != "calibrate" and (sched is None or sched.endswith(",50")) and k % 2 == 0
        jobs.append((rng.getrandbits(40), big, sched, kind))
    acc = Acc()
    with ThreadPoolExecutor(max_workers=12) as ex:
        results = list(ex.map(run_session, jobs))
    jobs.append(("self-branch-witness", False, None, "witness"))
    results.append(self_branch_session(None))
    walks = [(rng.getrandbits(40), [None, "%d,50" % rng.randrange(10 ** 6)][k % 2]) for k in range(12 if tier == "quick" else 200)]
    with ThreadPoolExecutor(max_workers=12) as ex:
        for w, o in zip(walks, ex.map(segment_walk_session, walks)):
            jobs.append(("segment-walk-%d" % w[0], False, w[1], "witness"))
            results.append(o)
    bursts = [(rng.choice([3000, 3001, 3002, 4500, 6000]), [None, "%d,50" % rng.randrange(10 ** 6)][k % 2]) for k in range(3 if tier == "quick" else 24)]
    with ThreadPoolExecutor(max_workers=6) as ex:
        for b, o in zip(bursts, ex.map(pipelined_steps_session, bursts)):
            jobs.append(("pipelined-steps-%d" % b[0], False, b[1], "witness"))
            results.append(o)
    reps = 3 if tier == "quick" else 30
    for k in range(reps):
        sched = [None, "%d,50" % rng.randrange(10 ** 6), "%d,2000" % rng.randrange(10 ** 6)][k % 3]
        jobs.append(("breakpoint-while-running-%d" % k, False, sched, "witness"))
        results.append(breakpoint_while_running_session(sched))
        jobs.append(("multi-address-%d" % k, False, sched, "witness"))
        results.append(multi_address_session(sched))
        jobs.append(("stepout-pushed-%d" % k, False, sched, "witness"))
        results.append(stepout_pushed_session(sched))
        jobs.append(("recursive-next-%d" % k, False, sched, "witness"))
        results.append(recursive_next_session(sched))
        jobs.append(("two-file-breakpoints-%d" % k, False, sched, "witness"))
        results.append(two_file_breakpoints_session(sched))
    for job, o in zip(jobs, results):
        acc.evaluations += o["evaluations"]
        for k, v in o["counts"].items():
            acc.count(k, v)
        for c in o["cover"]:
            acc.cover("observed", c)
        for r in o["inconclusive"]:
            acc.inconc(r)
        if o["sample"]:
            acc.sample(o["sample"], cap=2)
        if not o["violations"] and not o["inconclusive"]:
            acc.nontriv(job[0])
        for sig, msg, w in o["violations"]:
            acc.violation(sig, msg, w)
    return finish(
        "C19", tier, seed, acc, t0,
        rule="debug sessions on the emulated test machine: generated test bodies (nested counted loops, subroutines called from loops, "
             "pha/pla, stores) whose uninterrupted run is known from the reference 6502 model (per instruction: line, A, X, Y, flags, "
             "cycle count, call depth). A quarter of the sessions single-steps 150 instructions (calibration of the model against the "
             "adapter); the others drive random sequences of continue / pause after a seeded 0-30 ms delay / next / stepIn / stepOut / "
             "setBreakpoints / evaluate / queries while running, with H2 schedule perturbation (none, <= 50 us, <= 2 ms). After every "
             "stopped event the frame, registers and flags are read twice 40 ms apart: they must be identical, lie on the reference "
             "trace (CYC is the index), and the frame line must be the line of that instruction; a stop after continue must be the "
             "first breakpoint line ahead (not later, and not later either when a pause is in flight); steps must land on the "
             "model's successor / return / caller index. Segment walks: a test whose code is spread over blocks of several segments "
             "written in a random order (bytes not emitted in ascending address order) is single-stepped or run from breakpoint to "
             "breakpoint; frame line, X and Y are known for every stop. Pipelined steps: 3000-6000 `next` requests sent without waiting "
             "for the answers; every one must be answered and the machine must be where that many steps lead. Witness sessions: `next` over a call of "
             "a subroutine that calls itself; breakpoints in two source files set with one request per file. Non-trivial = distinct session without inconclusive step.",
        assumptions=["cpu6502.py (incl. its cycle table) is the reference; the calibration sessions compare it with the adapter step by step",
                     "programs avoid self-branches; schedule space is sampled, the phases seen are reported"], min_nontrivial=2)
