"""C03 - expressions evaluate as documented: random trees vs an unbounded-integer reference evaluator."""
import time

from ..common import Acc, Probe, finish, rng_for, run_sharded
from ..oracle import exprval as ev

BASE = 0x2000
PUNCT = "".join(chr(c) for c in range(0x20, 0x40) if chr(c) not in '"')
LOWER = "abcdefghijklmnopqrstuvwxyz"
UPPER = LOWER.upper()


def num_leaf(rng, v=None):
    if v is None:
        v = rng.choice([0, 1, 2, 3, 7, 8, 15, 16, 31, 127, 128, 255, 256, 257, 1000, 4096, 0x7FFF, 0x8000, 0xFFFF,
                        0x10000, 0x12345, 0x7FFFFFFF, 0x80000000, 0xFFFFFFFF, 0x100000000,
                        rng.randrange(0, 256), rng.randrange(0, 65536), rng.randrange(0, 1 << 20)])
    if v in (0, 1) and rng.random() < 0.15:
        return ("num", v, "true" if v else "false")
    radix = rng.choice(["dec", "hex", "bin"])
    zeros = "0" * rng.choice([0, 0, 0, 1, 3])
    if radix == "dec":
        txt = zeros + "%d" % v
    elif radix == "hex":
        h = "%x" % v
        h = "".join(c.upper() if rng.random() < 0.5 else c for c in h)
        txt = "$" + zeros + h
    else:
        txt = "%" + zeros + bin(v)[2:]
    return ("num", v, txt)


def gen_int(rng, depth, env_ints, env_strs, undefined):
    if depth <= 0 or rng.random() < 0.18:
        r = rng.random()
        if r < 0.45:
            return num_leaf(rng)
        if r < 0.78 and env_ints:
            return ("id", rng.choice(env_ints), rng.choice([None, None, None, "<", ">"]))
        if r < 0.84:
            return ("pc",)
        if r < 0.92:
            return ("defined", rng.choice(env_ints + env_strs + undefined))
        # string comparison yields an int
        return ("bin", rng.choice(["==", "!="]), gen_str(rng, 1, env_ints, env_strs), gen_str(rng, 1, env_ints, env_strs))
    r = rng.random()
    if r < 0.12:
        return ("un", rng.choice(["!", "-", "!-"]), gen_int(rng, depth - 1, env_ints, env_strs, undefined))
    if r < 0.2:
        return ("paren", gen_int(rng, depth - 1, env_ints, env_strs, undefined))
    op = rng.choice(ev.ALL_OPS)
    l = gen_int(rng, depth - 1, env_ints, env_strs, undefined)
    if op in ("<<", ">>"):
        r_ = num_leaf(rng, rng.choice([0, 1, 2, 4, 7, 8, 15, 16, 24, 31])) if rng.random() < 0.8 else gen_int(rng, 0, env_ints, env_strs, undefined)
    elif op in ("/", "%") and rng.random() < 0.5:
        r_ = num_leaf(rng, rng.choice([1, 2, 3, 5, 7, 10, 16, 255, 256, 1000]))
        if rng.random() < 0.3:
            r_ = ("un", "-", r_)
    else:
        r_ = gen_int(rng, depth - 1, env_ints, env_strs, undefined)
    return ("bin", op, l, r_)


def gen_strlit(rng):
    pieces = []
    n = rng.randrange(0, 3)
    alphabet = LOWER + "0123456789 @" + PUNCT
    s = "".join(rng.choice(alphabet) for _ in range(rng.randrange(0, 7)))
    return s


def gen_str(rng, depth, env_ints, env_strs):
    r = rng.random()
    if depth > 0 and r < 0.35:
        return ("bin", "+", gen_str(rng, depth - 1, env_ints, env_strs), gen_str(rng, depth - 1, env_ints, env_strs))
    if r < 0.5 and env_strs:
        return ("id", rng.choice(env_strs), None)
    pieces = []
    for _ in range(rng.randrange(1, 4)):
        q = rng.random()
        if q < 0.6:
            s = gen_strlit(rng)
            if s:
                pieces.append(("lit", s))
        elif q < 0.8 and env_ints:
            pieces.append(("interp", rng.choice(env_ints)))
        elif env_strs:
            pieces.append(("interp", rng.choice(env_strs)))
    merged = []
    for p in pieces:  # adjacent literals merge in the source text anyway
        if merged and merged[-1][0] == "lit" and p[0] == "lit":
            merged[-1] = ("lit", merged[-1][1] + p[1])
        else:
            merged.append(p)
    return ("str", tuple(merged))


def encode_text(s, enc):
    """Returns list of acceptable byte sets per character (None = outside the unambiguous subset)."""
    out = []
    for ch in s:
        c = ord(ch)
        if enc == "ascii":
            out.append({c})
        elif enc == "petscii":
            if ch in LOWER:
                out.append({0x41 + LOWER.index(ch)})
            elif 0x20 <= c <= 0x3F or ch == "@":
                out.append({c})
            elif ch in UPPER:
                out.append({0x61 + UPPER.index(ch), 0xC1 + UPPER.index(ch)})
            else:
                return None
        else:  # petscreen
            if ch in LOWER:
                out.append({1 + LOWER.index(ch)})
            elif 0x20 <= c <= 0x3F:
                out.append({c})
            elif ch == "@":
                out.append({0})
            elif ch in UPPER:
                out.append({0x41 + UPPER.index(ch)})
            else:
                return None
    return out


def build_program(rng, nexpr, depth):
    """Returns (source, items) with items = [(line, kind, tree, text, size, expected, pc)]"""
    consts = {}
    lines = []
    if rng.random() < 0.3:
        # the same program in a segment that is stored somewhere else than where it runs: `*` and labels are run addresses
        lines.append('.define segment { name = "r" start = $%x pc = $%x }' % (rng.choice([0x1000, 0x0810, 0xC000]), BASE))
    ints, strs = [], []
    for i in range(rng.randrange(3, 7)):
        name = rng.choice(["k%d", "k%d", "trueval%d", "false_%d", "True%d", "asciiz%d", "defined%d"]) % i
        leaf = num_leaf(rng)
        v = leaf[1]
        txt = leaf[2]
        if rng.random() < 0.25:
            v, txt = -v, "-" + txt
        consts[name] = v
        ints.append(name)
        lines.append(".const %s = %s" % (name, txt))
    for i in range(rng.randrange(1, 3)):
        name = "s%d" % i
        s = gen_strlit(rng) or "x"
        consts[name] = s
        strs.append(name)
        lines.append('.const %s = "%s"' % (name, s))
    # a named scope holding a constant and a label, referenced by dotted path
    lines.append("sc: {")
    consts["sc"] = BASE
    inner = rng.randrange(0, 70000)
    consts["sc.inner"] = inner
    lines.append(".const inner = %d" % inner)
    lines.append(".byte 1, 2, 3")
    consts["sc.lab"] = BASE + 3
    lines.append("lab:")
    lines.append("}")
    ints += ["sc.inner", "sc.lab", "sc"]
    consts["l0"] = BASE + 3
    lines.append("l0:")
    ints += ["l0", "lz"]
    undefined = ["nope", "sc.nope", "k99"]
    pc = BASE + 3
    items = []
    specs = []
    for _ in range(nexpr):
        r = rng.random()
        if r < 0.82:
            tree = gen_int(rng, depth, ints, strs, undefined)
            kind = rng.choice([".dword"] * 6 + [".word"] * 2 + [".byte"])
            sz = {".dword": 4, ".word": 2, ".byte": 1}[kind]
            specs.append((kind, None, tree, sz))
        else:
            tree = gen_str(rng, 2, ints, strs)
            enc = rng.choice([None, "ascii", "petscii", "petscreen"])
            specs.append((".text", enc, tree, None))
    # sizes of .text depend on values; labels (lz) depend on sizes -> evaluate strings first (they never use lz/pc)
    env = dict(consts)
    env["lz"] = None
    sized = []
    for kind, enc, tree, sz in specs:
        if kind == ".text":
            try:
                s = ev.evaluate(tree, {k: v for k, v in env.items()}, 0)
            except ev.OutOfDomain:
                s = None
            if s is None or not isinstance(s, str):
                continue
            sized.append((kind, enc, tree, len(s.encode("utf8"))))
        else:
            sized.append((kind, enc, tree, sz))
    total = sum(s[3] for s in sized)
    env["lz"] = pc + total
    prev = None           # the previous data directive, when the next value of the same kind may be appended to its list
    for kind, enc, tree, sz in sized:
        text = ev.render(tree, sp=lambda: rng.choice([" ", " ", "", "  "]))
        # `a <b` style ambiguities: keep a space before modifiers/unary so that `<`/`>`/`-` never glue to an operator
        text = ev.render(tree, sp=lambda: " ")
        try:
            val = ev.evaluate(tree, env, pc)
            in_domain = True
        except ev.OutOfDomain as e:
            val, in_domain = str(e), False
        if in_domain and prev is not None and prev == kind and kind != ".text" and rng.random() < 0.35:
            # one directive with several values: `*` in a later value is the address of that value's own bytes (the program
            # counter advances with every value that is emitted)
            line = len(lines) - 1
            lines[line] += rng.choice([", ", ",", " , "]) + text
            stmt = "%s ..., %s" % (kind, text)
            items[-1]["listed"] = True
            listed = True
        else:
            line = len(lines)
            stmt = "%s %s%s" % (kind, (enc + " ") if enc else "", text)
            lines.append(stmt)
            listed = False
        prev = kind if in_domain else None
        items.append({"line": line, "kind": kind, "enc": enc or "ascii", "tree": tree, "text": stmt, "size": sz, "val": val,
                      "in_domain": in_domain, "pc": pc, "listed": listed})
        pc += sz
    lines.append("lz:")
    return "\n".join(lines) + "\n", items, env


def expected_ok(item, got):
    v = item["val"]
    if item["kind"] == ".text":
        acc = encode_text(v, item["enc"])
        if acc is None:
            return None  # outside the unambiguous subset
        return len(got) == len(acc) and all(g in a for g, a in zip(got, acc))
    sz = item["size"]
    return got == (v & ((1 << (8 * sz)) - 1)).to_bytes(sz, "little")


def shrink_signature(probe, env_lines, item, env):
    """Finds the smallest failing subtree of a failing integer expression (each asked separately)."""
    best = None
    for sub in sorted(ev.subtrees(item["tree"]), key=ev.size):
        try:
            val = ev.evaluate(sub, env, BASE + 3)
        except ev.OutOfDomain:
            continue
        if isinstance(val, str):
            continue
        src = env_lines + ".dword " + ev.render(sub) + "\n"
        r = probe.ask({"batch": [src]})["results"][0]
        segs = r.get("s") or []
        data = bytes.fromhex(segs[0][2])[3:7] if segs else b""
        if r.get("d") or "panic" in r or data != (val & 0xFFFFFFFF).to_bytes(4, "little"):
            best = (sub, val, r)
            break
    if best is None:
        return "expr|unshrunk|" + root_shape(item["tree"]), None
    return "expr|" + root_shape(best[0]), {"sub": ev.render(best[0]), "expected": best[1], "result": best[2]}


def root_shape(t):
    """Root operator of the minimal failing subtree plus the kinds of its children: the violation's signature."""
    def kind(c):
        return c[0] if c[0] != "bin" else "bin"
    if t[0] == "un":
        return "un:%s(%s)" % (t[1], kind(t[2]))
    if t[0] == "bin":
        return "bin:%s(%s,%s)" % (t[1], kind(t[2]), kind(t[3]))
    if t[0] == "id":
        return "id:%s" % (t[2] or "")
    return t[0]


def shard(idx, n, seed, tier, params):
    acc = Acc()
    probe = Probe()
    rng = rng_for(seed, "c03", idx)
    t_end = time.time() + params["budget"]
    nprog = params["programs"] // n
    for pi in range(nprog):
        if time.time() > t_end:
            acc.count("budget_cut")
            break
        depth = rng.choice([1, 2, 3, 4, 5])
        src, items, env = build_program(rng, params["per_program"], depth)
        # out-of-domain expressions are removed from the program (they may legitimately be rejected or wrap)
        if any(not it["in_domain"] for it in items):
            keep = [it for it in items if it["in_domain"]]
            acc.count("out_of_domain_dropped", len(items) - len(keep))
            # rebuild text with only in-domain lines: sizes/pcs change, so regenerate addresses
            lines = src.split("\n")
            drop = {it["line"] for it in items if not it["in_domain"]}
            # replace dropped directives by same-size zero data so addresses stay put
            for it in items:
                if it["line"] in drop:
                    lines[it["line"]] = ".byte " + ", ".join(["0"] * it["size"]) if it["size"] else "// dropped"
            src = "\n".join(lines)
            items = keep
        r = probe.ask({"batch": [src]})
        res = r.get("results", [{"harness": r}])[0]
        if "harness" in res or "died" in r or "timeout" in r:
            acc.inconc("probe problem: %r" % (r,))
            continue
        if "panic" in res:
            acc.violation("program|panic|" + res["panic"].split("@")[-1].strip(), "panic %s" % res["panic"], {"src": src, "result": res})
            acc.evaluations += len(items)
            continue
        segs = res.get("s") or []
        data = bytes.fromhex(segs[0][2]) if segs else b""
        diag_lines = {d[0]: d[1] for d in res.get("d", [])}
        env_lines = src.split("l0:\n")[0] + "l0:\n"
        for it in items:
            acc.evaluations += 1
            off = it["pc"] - BASE
            got = data[off:off + it["size"]] if not diag_lines else None
            if it["line"] in diag_lines:
                ok = False
            elif diag_lines:
                continue  # another expression of this program was rejected; this one is not judged
            else:
                ok = expected_ok(it, got)
            if ok is None:
                acc.count("text_outside_subset")
                continue
            acc.nontriv(it["text"], it["pc"])
            acc.count("judged" + it["kind"])
            if it.get("listed"):
                acc.count("judged.value_in_a_list_of_several")
            for sub in ev.subtrees(it["tree"]):
                if sub[0] == "bin":
                    for side, ch in (("l", sub[2]), ("r", sub[3])):
                        if ch[0] == "bin":
                            acc.cover("parent_child_side", "%s %s %s" % (sub[1], ch[1], side))
                    if sub[1] in ("/", "%"):
                        try:
                            if ev.evaluate(sub[2], env, it["pc"]) < 0 or ev.evaluate(sub[3], env, it["pc"]) < 0:
                                acc.count("negative_operand_of_div_mod")
                        except Exception:
                            pass
                if sub[0] == "id" and sub[2] == ">" and isinstance(env.get(sub[1]), int) and env[sub[1]] > 65535:
                    acc.count("hi_byte_of_value_above_65535")
            if not ok:
                if it["kind"] == ".text":
                    sig, detail = "text|%s|%s" % (it["enc"], ev.skeleton(it["tree"])[:60]), None
                else:
                    sig, detail = shrink_signature(probe, env_lines, it, env)
                acc.violation(sig, "%s (pc=$%x) expected value %r, got bytes %s, diag %s" % (
                    it["text"], it["pc"], it["val"], got.hex() if got is not None else None, diag_lines.get(it["line"])),
                    {"src": src, "line": it["line"], "expected_value": it["val"], "got": got.hex() if got is not None else None,
                     "diags": res.get("d"), "minimal": detail})
        if pi == 0:
            acc.sample({"directive": items[0]["text"], "expected_value": items[0]["val"], "pc": items[0]["pc"]} if items else "empty")
    probe.close()
    return acc


def main(tier, seed):
    t0 = time.time()
    params = {"programs": 4000 if tier == "quick" else 60000, "per_program": 50, "budget": 60 if tier == "quick" else 900}
    acc = run_sharded(shard, seed, tier, params)
    return finish(
        "C03", tier, seed, acc, t0,
        rule="random expression trees (depth <= 5) over literals in 3 radixes with leading zeros, true/false, constants, labels "
             "(backward, forward, dotted), strings with interpolation, `*`, all 16 binary operators, !, -, !-, </> modifiers, "
             "defined(); rendered with parentheses wherever the documentation fixes no precedence; stored with .dword/.word/.byte/"
             ".text and compared with unbounded-integer evaluation. Out-of-domain trees (i64 overflow, zero divisor, shift count "
             "outside 0..31) are dropped. Non-trivial = distinct (directive text, address) judged.",
        assumptions=["/ and % truncate toward zero (C/Rust semantics; the guide is silent)",
                     "`*` in a value of a data directive with several values is the address of that value's own bytes (the program counter advances with every value emitted)",
                     "petscii/petscreen judged only on [a-z0-9 @], ASCII punctuation 0x20-0x3F and A-Z"])
