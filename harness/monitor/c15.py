"""C15 - rename is behaviour-preserving and complete (real `mos lsp` + the assembler as judge)."""
import time

from ..common import Acc, Probe, finish, rng_for, run_sharded
from ..client.lsp import apply_edits
from . import lspcommon as L
from . import c16


def build_outcome(probe, files, pc):
    r = probe.ask({"files": files, "ops": ["parse", "codegen"], "opts": {"pc": pc}})
    if "parse" not in r:
        return ("probe", str(r)[:100])
    if r["parse"].get("diags"):
        return ("parse-diags", sorted(d["msg"] for d in r["parse"]["diags"])[:3])
    cg = r.get("codegen", {})
    if "panic" in cg:
        return ("panic", cg["panic"])
    if cg.get("diags"):
        return ("diags", sorted(d["msg"] for d in cg["diags"])[:3])
    return ("ok", tuple((s["name"], s["start"], s["bytes"]) for s in cg["ctx"]["segments"]))


def fresh_name(rng, old, same_length):
    if same_length:
        if len(old) >= 3:
            return "zq" + "".join(rng.choice("abcdefghjkmnpqrstuvwxyz") for _ in range(len(old) - 2))
        return None
    return "renamed_%s_%d" % (rng.choice(["a", "bb", "ccc"]), rng.randrange(1000))


def chain_project(rng):
    """Hand-built import chains (main -> [top ->] mid -> lib) with `as` aliases below the root file: (files, sites) where a
    site is (symbol, file, line, col0, col1) of an occurrence at which the symbol can be renamed."""
    name = rng.choice(["delay", "wait", "tick", "blink", "fade"]) + str(rng.randrange(10))
    alias = rng.choice([None, "lib_" + name, "al%d" % rng.randrange(9)])
    other = "other%d" % rng.randrange(9)
    lib = "%s: {\n    nop\n    rts\n}\n.const %s = 5\n" % (name, other)
    use = alias or name
    imp = '.import %s%s, %s from "lib.asm"\n' % (name, " as " + alias if alias else "", other)
    mid = imp + "go: {\n    jsr %s\n    lda #<%s\n    ldx #%s\n    rts\n}\n" % (use, use, other)
    how = rng.choice(["*", "go", "go as run", "* as m"])
    call = {"*": "go", "go": "go", "go as run": "run", "* as m": "m.go"}[how]
    files = {"lib.asm": lib, "mid.asm": mid}
    if rng.random() < 0.5:
        files["top.asm"] = '.import %s from "mid.asm"\nstart: {\n    jsr %s\n    rts\n}\n' % (how, call)
        files["main.asm"] = '.import * from "top.asm"\n    jsr start\n    rts\n'
        user = "top.asm"
    else:
        files["main.asm"] = '.import %s from "mid.asm"\n    jsr %s\n    rts\n' % (how, call)
        user = "main.asm"
    sites = [(name, "lib.asm", 0, 0, len(name)), (name, "mid.asm", 0, 8, 8 + len(name))]
    if not alias:
        sites += [(name, "mid.asm", 2, 8, 8 + len(name)), (name, "mid.asm", 3, 10, 10 + len(name))]
    sites += [(other, "lib.asm", 4, 7, 7 + len(other)), (other, "mid.asm", 4, 9, 9 + len(other)), ("go", "mid.asm", 1, 0, 2)]
    if how in ("*", "go"):
        ucall = files[user].split("\n")[2 if user == "top.asm" else 1]
        sites.append(("go", user, 2 if user == "top.asm" else 1, ucall.index("go"), ucall.index("go") + 2))
    return files, sites, {"alias": alias, "how": how, "levels": len(files)}


def glued_project(rng):
    """One file in which invocations touch the brace that opens the enclosing block (`b: {emit()}`), with the macro defined
    before and after the block: at the first character of such a use two spans meet (the block's and the identifier's).
    Sites are the first character, an inner character, and the definitions."""
    early = rng.choice(["early", "first", "setup"]) + str(rng.randrange(10))
    emit = rng.choice(["emit", "later", "flash"]) + str(rng.randrange(10))
    sp = rng.choice(["", " "])
    lines = [".macro %s() { nop }" % early,
             "a: {%s()}" % early,
             "b: {%s()}" % emit,
             "c: {%s%s()%s}" % (sp, emit, sp),
             ".if 1 {%s()}" % emit,
             ".loop 2 {%s()}" % emit,
             "d: {%s()}" % early,
             ".macro %s() { inx }" % emit,
             "e: {%s()}" % emit]
    rng_lines = list(range(1, 7)) + [8]
    sites = []
    for ln in rng_lines:
        sym = early if early in lines[ln] else emit
        c0 = lines[ln].index(sym)
        sites.append((sym, "main.asm", ln, c0, c0 + 1))
        sites.append((sym, "main.asm", ln, c0 + 1, c0 + len(sym)))
    sites.append((early, "main.asm", 0, 7, 7 + len(early)))
    sites.append((emit, "main.asm", 7, 7, 7 + len(emit)))
    rng.shuffle(sites)
    return {"main.asm": "\n".join(lines) + "\n"}, sites[:8], {"alias": None, "how": "glued-to-brace", "levels": 1}


def dead_macro_project(rng):
    """One file with a macro that is never invoked (the server analyses its body without parameter values) whose straight-line
    body uses an outer constant and an outer label next to its parameter, on either side of a binary operator. The names are
    unique in the file, so after a rename the old name must be gone from the text."""
    bar = rng.choice(["bar", "colour", "width"]) + str(rng.randrange(10))
    lab = rng.choice(["table", "entry", "spot"]) + str(rng.randrange(10))
    body = ["lda #arg + %s" % bar, "lda #%s + arg" % bar, "ldx #%s" % bar, "sta %s + arg" % lab, "sta arg + %s" % lab,
            ".byte arg, %s" % bar, ".word arg * 2 + %s" % lab, "lda #arg - (%s * 2)" % bar, "jmp %s" % lab]
    rng.shuffle(body)
    body = body[:rng.randrange(3, len(body) + 1)]
    lines = [".const %s = 3" % bar, ".macro never(arg) {"] + ["    " + b for b in body] + ["}", "%s:" % lab, "    lda #%s" % bar, "    jmp %s" % lab]
    n = len(lines)
    sites = [(bar, "main.asm", 0, 7, 7 + len(bar)), (bar, "main.asm", n - 2, 9, 9 + len(bar)),
             (lab, "main.asm", n - 3, 0, len(lab)), (lab, "main.asm", n - 1, 8, 8 + len(lab))]
    return {"main.asm": "\n".join(lines) + "\n"}, sites, {"alias": None, "how": "never-invoked-macro-body", "levels": 1}


def chain_cases(acc, probe, rng, count, project=chain_project):
    """Renames through import chains: judged by meaning (the edited project assembles to the same bytes without diagnostics,
    no edit has an empty text, the definition and the import statement carry the new name) and by the round trip."""
    tag = {chain_project: "import-chain", glued_project: "glued-to-brace"}.get(project, "never-invoked-macro-body")
    viol = lambda sig, *rest: acc.violation(sig.replace("import-chain", tag), *rest)
    for _ in range(count):
        files, sites, info = project(rng)
        pc = 0x2000
        base = build_outcome(probe, files, pc)
        if base[0] != "ok":
            acc.inconc("import-chain project does not assemble: %r" % (base,))
            continue
        pr = L.Project(files, open_files=sorted(files) if rng.random() < 0.6 else ["main.asm"])
        try:
            version = 2
            for sym, f, ln, c0, c1 in sites:
                pr.set_contents(files)
                new = "zq" + "".join(rng.choice("abcdefghjkmnpqrstuvwxyz") for _ in range(max(1, len(sym) - 2)))
                col = rng.randrange(c0, c1)
                acc.evaluations += 1
                w = {"files": files, "symbol": sym, "at": [f, ln, col], "new_name": new, "chain": info}
                prep = pr.pos_request("textDocument/prepareRename", f, ln, col)
                if prep.get("busy"):
                    acc.inconc("language server still computing after the extended watchdog")
                    break
                if "dead" in prep or "timeout" in prep:
                    viol("server-died|prepareRename|import-chain", "no answer", dict(w, response=prep))
                    return
                if not prep.get("result"):
                    acc.count("chain.rename-not-offered")
                    continue
                resp = pr.pos_request("textDocument/rename", f, ln, col, {"newName": new})
                w["response"] = resp
                if resp.get("busy"):
                    acc.inconc("language server still computing after the extended watchdog")
                    break
                if "dead" in resp or "timeout" in resp:
                    viol("server-died|rename|import-chain", "no answer", w)
                    return
                changes = (resp.get("result") or {}).get("changes")
                if not changes:
                    viol("offered-but-no-edit|import-chain", "prepareRename offered %s but rename returned nothing" % sym, w)
                    continue
                if any(not e["newText"] for edits in changes.values() for e in edits):
                    viol("empty-edit|import-chain", "rename of %s returns an edit whose new text is empty" % sym, w)
                    continue
                try:
                    new_files = {name: apply_edits(files[name], changes.get(pr.uri(name), [])) for name in files}
                except ValueError as e:
                    viol("malformed-edit|import-chain", str(e), w)
                    continue
                after = build_outcome(probe, new_files, pc)
                if after != base:
                    viol("meaning-changed|import-chain|%s" % after[0], "after renaming %s to %s the project %s" % (
                        sym, new, "assembles differently" if after[0] == "ok" else "has diagnostics: %s" % (after[1],)), dict(w, edited=new_files))
                    continue
                if sym in "".join(t for n_, t in new_files.items()).replace("lib_" + sym, "") and sym != "go":
                    viol("edit-set-incomplete|import-chain", "the old name %s is still there after the rename" % sym, dict(w, edited=new_files))
                    continue
                acc.count("chain.renames_preserving_bytes")
                acc.nontriv("chain", files.get("mid.asm"), files["main.asm"], sym, f, ln, col)
                acc.cover("chain_shapes", "%s/alias=%s/levels=%d" % (info["how"], bool(info["alias"]), info["levels"]))
                if len(new) == len(sym):
                    pr.set_contents(new_files)
                    back = pr.pos_request("textDocument/rename", f, ln, col, {"newName": sym})
                    ch2 = (back.get("result") or {}).get("changes") or {}
                    try:
                        restored = {name: apply_edits(new_files[name], ch2.get(pr.uri(name), [])) for name in files}
                    except ValueError as e:
                        viol("malformed-edit|rename-back|import-chain", str(e), dict(w, response2=back))
                        continue
                    if restored != files:
                        viol("rename-back-does-not-restore|import-chain", "renaming %s back to %s does not restore the files" % (new, sym), dict(w, edited=new_files, restored=restored))
                        continue
                    acc.count("chain.round_trips_ok")
        finally:
            pr.close()


def shard(idx, n, seed, tier, params):
    acc = Acc()
    probe = Probe()
    rng = rng_for(seed, "c15", idx)
    t_end = time.time() + params["budget"]
    chain_cases(acc, probe, rng, max(1, params["chains"] // n))
    chain_cases(acc, probe, rng, max(1, params["glued"] // n), project=glued_project)
    chain_cases(acc, probe, rng, max(1, params["glued"] // n), project=dead_macro_project)
    for i in range(params["programs"] // n):
        if time.time() > t_end:
            acc.count("budget_cut")
            break
        g = L.gen_nav_program(rng)
        if g is None:
            continue
        prog, files, r = g
        pc = 0x2000
        base = build_outcome(probe, files, pc)
        chk = probe.ask({"files": files, "ops": ["parse", "greedy"], "opts": {"pc": 0xC000}})
        if base[0] != "ok" or chk.get("greedy", {}).get("diags") or "panic" in chk.get("greedy", {}):
            acc.count("skipped.not-error-free")
            continue
        occs = L.occurrences(prog, r)
        dead_macros = c16.in_uninvoked_macro(prog)
        in_dead = lambda o: o.get("site") is not None and any(a.uid in dead_macros for a in o["site"].chain())
        dead_ranges = L.dead_regions(prog, dead_macros)
        in_dead_range = lambda f, ln, col: L.in_regions(dead_ranges, f, ln, col)
        by_def = {}
        for o in occs:
            by_def.setdefault(o["target"].uid, []).append(o)
        cands = [d for d in {o["target"].uid: o["target"] for o in occs}.values()
                 if d.pos is not None and d.kind in ("label", "const", "macro", "param") and not any(a.uid in dead_macros for a in d.scope.chain())
                 and not any(in_dead(o) or not o["analysed"] for o in by_def[d.uid])]
        if not cands:
            continue
        # (a third of the projects has only the main file open: the other files change on disk, as they do when a client
        # applies a workspace edit to files that are not open)
        pr = L.Project(files, open_files=sorted(files) if rng.random() < 0.66 else ["main.asm"])
        try:
            version = 2
            for d in rng.sample(cands, min(len(cands), params["per_program"])):
                same_len = rng.random() < 0.6
                new = fresh_name(rng, d.name, same_len)
                if new is None:
                    continue
                # reset the server to the original buffers (a rename request changes the server's symbol table, see C14)
                pr.set_contents(files)
                # ask at the definition or at one of the uses
                sites = [(d.pos[0], d.pos[1], d.pos[2], d.pos[3])] + [(o["file"], o["line"], o["c0"], o["c1"]) for o in by_def[d.uid] if not o["in_import_stmt"]]
                f, ln, c0, c1 = rng.choice(sites)
                col = rng.randrange(c0, c1)
                acc.evaluations += 1
                prep = pr.pos_request("textDocument/prepareRename", f, ln, col)
                w = {"files": files, "symbol": d.name, "kind": d.kind, "at": [f, ln, col], "new_name": new}
                if prep.get("busy"):
                    acc.inconc("language server still computing after the extended watchdog")
                    break
                if "dead" in prep or "timeout" in prep:
                    acc.violation("server-died|prepareRename", "no answer: %s" % pr.srv.stderr[-200:].decode("utf8", "replace"), dict(w, response=prep))
                    break
                if not prep.get("result"):
                    acc.count("rename-not-offered.%s" % d.kind)
                    continue
                # a client may ask for the same rename more than once before applying it (a preview that is cancelled and repeated):
                # the answer that is judged below is then the second one, and it must be the answer the first request got
                preview = pr.pos_request("textDocument/rename", f, ln, col, {"newName": new}) if rng.random() < 0.3 else None
                resp = pr.pos_request("textDocument/rename", f, ln, col, {"newName": new})
                w["response"] = resp
                if resp.get("busy") or (preview or {}).get("busy"):
                    acc.inconc("language server still computing after the extended watchdog")
                    break
                if "dead" in resp or "timeout" in resp:
                    acc.violation("server-died|rename", "no answer: %s" % pr.srv.stderr[-200:].decode("utf8", "replace"), w)
                    break
                if preview is not None:
                    acc.count("renames_asked_twice")
                    norm = lambda r: sorted((u, sorted((L.rng_tuple(e["range"]), e["newText"]) for e in es)) for u, es in ((r.get("result") or {}).get("changes") or {}).items())
                    if norm(preview) != norm(resp):
                        acc.violation("rename-answer-changes-when-asked-again|%s" % d.kind, "the same rename request for %s, asked twice without any change in between, got two different answers" % d.name,
                                      dict(w, first_response=preview))
                        continue
                changes = (resp.get("result") or {}).get("changes")
                if not changes:
                    acc.violation("offered-but-no-edit|%s" % d.kind, "prepareRename offered %s but rename returned nothing" % d.name, w)
                    continue
                ctx = "%s%s" % (d.kind, "|imported" if getattr(prog, "exports", None) and d in prog.exports else "")
                # (1) exactly the occurrences of that symbol
                got = set()
                for uri, edits in changes.items():
                    for e in edits:
                        if in_dead_range(pr.name_of_uri(uri), e["range"]["start"]["line"], e["range"]["start"]["character"]):
                            acc.count("edits.inside-never-invoked-macro(not judged)")
                            continue
                        got.add((pr.name_of_uri(uri),) + L.rng_tuple(e["range"]))
                exp = {(d.pos[0], d.pos[1], d.pos[2], d.pos[1], d.pos[3])}
                import_starts = {}
                for o in by_def[d.uid]:
                    exp.add((o["file"], o["line"], o["c0"], o["line"], o["c1"]))
                    if o["in_import_stmt"]:
                        import_starts[(o["file"], o["line"], o["c0"])] = o["c1"]
                got_n = set((g[0], g[1], g[2], g[3], import_starts[(g[0], g[1], g[2])]) if (g[0], g[1], g[2]) in import_starts else g for g in got)
                if got_n != exp:
                    missing = sorted(exp - got_n)[:3]
                    extra = sorted(got_n - exp)[:3]
                    acc.violation("edit-set-%s|%s" % ("incomplete" if missing and not extra else ("too-wide" if extra and not missing else "differs"), ctx),
                                  "rename of %s: missing edits %s, unexpected edits %s" % (d.name, missing, extra), dict(w, expected=sorted(exp), got=sorted(got_n)))
                    continue
                # (2) the edited project assembles to the same bytes without diagnostics
                try:
                    new_files = {name: apply_edits(files[name], changes.get(pr.uri(name), [])) for name in files}
                except ValueError as e:
                    acc.violation("malformed-edit|%s" % ctx, str(e), w)
                    continue
                after = build_outcome(probe, new_files, pc)
                if after != base:
                    acc.violation("meaning-changed|%s|%s" % (ctx, after[0]), "after renaming %s to %s the project %s" % (d.name, new, "assembles differently" if after[0] == "ok" else "has diagnostics: %s" % (after[1],)),
                                  dict(w, edited=new_files))
                    continue
                acc.count("renames_preserving_bytes")
                acc.nontriv(files["main.asm"], d.name, f, ln)
                acc.cover("kind_x_site", "%s/%s" % (ctx, "definition" if (f, ln, c0) == (d.pos[0], d.pos[1], d.pos[2]) else "use"))
                # (3) renaming back restores the text byte for byte (same-length names keep the position valid)
                if same_len:
                    pr.set_contents(new_files)
                    back = pr.pos_request("textDocument/rename", f, ln, col, {"newName": d.name})
                    if back.get("busy"):
                        acc.inconc("language server still computing after the extended watchdog")
                        break
                    if "dead" in back or "timeout" in back:
                        acc.violation("server-died|rename-back", "no answer", dict(w, response2=back))
                        break
                    ch2 = (back.get("result") or {}).get("changes") or {}
                    try:
                        restored = {name: apply_edits(new_files[name], ch2.get(pr.uri(name), [])) for name in files}
                    except ValueError as e:
                        acc.violation("malformed-edit|rename-back|%s" % ctx, str(e), dict(w, response2=back))
                        continue
                    if restored != files:
                        bad = next(nm for nm in files if restored[nm] != files[nm])
                        acc.violation("rename-back-does-not-restore|%s" % ctx, "renaming %s back to %s does not restore %s" % (new, d.name, bad), dict(w, edited=new_files, restored=restored, response2=back))
                        continue
                    acc.count("round_trips_ok")
            if i == 0:
                acc.sample({"main.asm": files["main.asm"][:300], "candidates": [d.name for d in cands][:8]})
        finally:
            pr.close()
    probe.close()
    return acc


def main(tier, seed):
    t0 = time.time()
    params = {"programs": 4000 if tier == "quick" else 80000, "chains": 64 if tier == "quick" else 1600, "glued": 32 if tier == "quick" else 800, "per_program": 6, "budget": 90 if tier == "quick" else 1500}
    acc = run_sharded(shard, seed, tier, params)
    return finish(
        "C15", tier, seed, acc, t0,
        rule="error-free ProgGen projects as for C16; for up to 6 symbols per project (labels, constants, macros, macro parameters; shadowed "
             "names, dotted/super uses, uses in macro bodies, untaken branches, other files through imports) prepareRename is asked at "
             "the definition or a use; where a rename is offered, textDocument/rename with a fresh name must return edits at exactly the "
             "recorded occurrences of that symbol in all files, the edited project must assemble (real library) to identical bytes "
             "without diagnostics, and - with a same-length name - renaming back at the same position must restore every file byte for "
             "byte. The buffers are re-sent before each request. In addition hand-built import chains (main -> [top ->] mid -> lib, specific "
             "imports with and without `as` below the root file, re-exported through `*`, `* as`, specific and aliased imports) are "
             "renamed at every occurrence and judged by meaning, non-empty edits and the round trip; the same judgement for "
             "one-file projects whose macro invocations touch the opening brace of the enclosing block (`b: {emit()}`, macro "
             "defined before or after), asked at the first and at an inner character of the use, and for one-file projects with a never-invoked macro "
             "whose straight-line body uses an outer constant and label next to its parameter (unique names: the old name must be "
             "gone from the text). Non-trivial = distinct rename "
             "whose result preserved the bytes.",
        assumptions=["in the generated projects, symbols with uses inside never-invoked macros or zero-iteration loops are not renamed by the check (the server cannot bind uses behind a condition without a value); straight-line never-invoked bodies are judged by the hand-built cases",
                     "new names are fresh; a name equal to one in an unrelated scope is not yet exercised"])
