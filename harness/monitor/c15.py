"""C15 - rename is behaviour-preserving and complete (real `mos lsp` + the assembler as judge)."""
import time

from ..common import Acc, Probe, finish, rng_for, run_sharded
from ..client.lsp import apply_edits
from . import lspcommon as L
from . import c16


def build_outcome(probe, files, pc):
    r = probe.ask({"files": files, "ops": ["parse", "codegen"], "opts": {"pc": pc}})
    if "parse" not in r:
        return ("probe", str(r)[:100])
    if r["parse"].get("diags"):
        return ("parse-diags", sorted(d["msg"] for d in r["parse"]["diags"])[:3])
    cg = r.get("codegen", {})
    if "panic" in cg:
        return ("panic", cg["panic"])
    if cg.get("diags"):
        return ("diags", sorted(d["msg"] for d in cg["diags"])[:3])
    return ("ok", tuple((s["name"], s["start"], s["bytes"]) for s in cg["ctx"]["segments"]))


def fresh_name(rng, old, same_length):
    if same_length:
        if len(old) >= 3:
            return "zq" + "".join(rng.choice("abcdefghjkmnpqrstuvwxyz") for _ in range(len(old) - 2))
        return None
    return "renamed_%s_%d" % (rng.choice(["a", "bb", "ccc"]), rng.randrange(1000))


def shard(idx, n, seed, tier, params):
    acc = Acc()
    probe = Probe()
    rng = rng_for(seed, "c15", idx)
    t_end = time.time() + params["budget"]
    for i in range(params["programs"] // n):
        if time.time() > t_end:
            acc.count("budget_cut")
            break
        g = L.gen_nav_program(rng)
        if g is None:
            continue
        prog, files, r = g
        pc = 0x2000
        base = build_outcome(probe, files, pc)
        chk = probe.ask({"files": files, "ops": ["parse", "greedy"], "opts": {"pc": 0xC000}})
        if base[0] != "ok" or chk.get("greedy", {}).get("diags") or "panic" in chk.get("greedy", {}):
            acc.count("skipped.not-error-free")
            continue
        occs = L.occurrences(prog, r)
        dead_macros = c16.in_uninvoked_macro(prog)
        in_dead = lambda o: o.get("site") is not None and any(a.uid in dead_macros for a in o["site"].chain())
        dead_ranges = L.dead_regions(prog, dead_macros)
        in_dead_range = lambda f, ln, col: L.in_regions(dead_ranges, f, ln, col)
        by_def = {}
        for o in occs:
            by_def.setdefault(o["target"].uid, []).append(o)
        cands = [d for d in {o["target"].uid: o["target"] for o in occs}.values()
                 if d.pos is not None and d.kind in ("label", "const", "macro", "param") and not any(a.uid in dead_macros for a in d.scope.chain())
                 and not any(in_dead(o) or not o["analysed"] for o in by_def[d.uid])]
        if not cands:
            continue
        pr = L.Project(files, open_files=sorted(files))
        try:
            version = 2
            for d in rng.sample(cands, min(len(cands), params["per_program"])):
                same_len = rng.random() < 0.6
                new = fresh_name(rng, d.name, same_len)
                if new is None:
                    continue
                # reset the server to the original buffers (a rename request changes the server's symbol table, see C14)
                for name in sorted(files):
                    version += 1
                    pr.srv.did_change(pr.path(name), files[name], version)
                # ask at the definition or at one of the uses
                sites = [(d.pos[0], d.pos[1], d.pos[2], d.pos[3])] + [(o["file"], o["line"], o["c0"], o["c1"]) for o in by_def[d.uid] if not o["in_import_stmt"]]
                f, ln, c0, c1 = rng.choice(sites)
                col = rng.randrange(c0, c1)
                acc.evaluations += 1
                prep = pr.pos_request("textDocument/prepareRename", f, ln, col)
                w = {"files": files, "symbol": d.name, "kind": d.kind, "at": [f, ln, col], "new_name": new}
                if "dead" in prep or "timeout" in prep:
                    acc.violation("server-died|prepareRename", "no answer: %s" % pr.srv.stderr[-200:].decode("utf8", "replace"), dict(w, response=prep))
                    break
                if not prep.get("result"):
                    acc.count("rename-not-offered.%s" % d.kind)
                    continue
                resp = pr.pos_request("textDocument/rename", f, ln, col, {"newName": new})
                w["response"] = resp
                if "dead" in resp or "timeout" in resp:
                    acc.violation("server-died|rename", "no answer: %s" % pr.srv.stderr[-200:].decode("utf8", "replace"), w)
                    break
                changes = (resp.get("result") or {}).get("changes")
                if not changes:
                    acc.violation("offered-but-no-edit|%s" % d.kind, "prepareRename offered %s but rename returned nothing" % d.name, w)
                    continue
                ctx = "%s%s" % (d.kind, "|imported" if getattr(prog, "exports", None) and d in prog.exports else "")
                # (1) exactly the occurrences of that symbol
                got = set()
                for uri, edits in changes.items():
                    for e in edits:
                        if in_dead_range(pr.name_of_uri(uri), e["range"]["start"]["line"], e["range"]["start"]["character"]):
                            acc.count("edits.inside-never-invoked-macro(not judged)")
                            continue
                        got.add((pr.name_of_uri(uri),) + L.rng_tuple(e["range"]))
                exp = {(d.pos[0], d.pos[1], d.pos[2], d.pos[1], d.pos[3])}
                import_starts = {}
                for o in by_def[d.uid]:
                    exp.add((o["file"], o["line"], o["c0"], o["line"], o["c1"]))
                    if o["in_import_stmt"]:
                        import_starts[(o["file"], o["line"], o["c0"])] = o["c1"]
                got_n = set((g[0], g[1], g[2], g[3], import_starts[(g[0], g[1], g[2])]) if (g[0], g[1], g[2]) in import_starts else g for g in got)
                if got_n != exp:
                    missing = sorted(exp - got_n)[:3]
                    extra = sorted(got_n - exp)[:3]
                    acc.violation("edit-set-%s|%s" % ("incomplete" if missing and not extra else ("too-wide" if extra and not missing else "differs"), ctx),
                                  "rename of %s: missing edits %s, unexpected edits %s" % (d.name, missing, extra), dict(w, expected=sorted(exp), got=sorted(got_n)))
                    continue
                # (2) the edited project assembles to the same bytes without diagnostics
                try:
                    new_files = {name: apply_edits(files[name], changes.get(pr.uri(name), [])) for name in files}
                except ValueError as e:
                    acc.violation("malformed-edit|%s" % ctx, str(e), w)
                    continue
                after = build_outcome(probe, new_files, pc)
                if after != base:
                    acc.violation("meaning-changed|%s|%s" % (ctx, after[0]), "after renaming %s to %s the project %s" % (d.name, new, "assembles differently" if after[0] == "ok" else "has diagnostics: %s" % (after[1],)),
                                  dict(w, edited=new_files))
                    continue
                acc.count("renames_preserving_bytes")
                acc.nontriv(files["main.asm"], d.name, f, ln)
                acc.cover("kind_x_site", "%s/%s" % (ctx, "definition" if (f, ln, c0) == (d.pos[0], d.pos[1], d.pos[2]) else "use"))
                # (3) renaming back restores the text byte for byte (same-length names keep the position valid)
                if same_len:
                    for name in sorted(files):
                        version += 1
                        pr.srv.did_change(pr.path(name), new_files[name], version)
                    back = pr.pos_request("textDocument/rename", f, ln, col, {"newName": d.name})
                    if "dead" in back or "timeout" in back:
                        acc.violation("server-died|rename-back", "no answer", dict(w, response2=back))
                        break
                    ch2 = (back.get("result") or {}).get("changes") or {}
                    try:
                        restored = {name: apply_edits(new_files[name], ch2.get(pr.uri(name), [])) for name in files}
                    except ValueError as e:
                        acc.violation("malformed-edit|rename-back|%s" % ctx, str(e), dict(w, response2=back))
                        continue
                    if restored != files:
                        bad = next(nm for nm in files if restored[nm] != files[nm])
                        acc.violation("rename-back-does-not-restore|%s" % ctx, "renaming %s back to %s does not restore %s" % (new, d.name, bad), dict(w, edited=new_files, restored=restored, response2=back))
                        continue
                    acc.count("round_trips_ok")
            if i == 0:
                acc.sample({"main.asm": files["main.asm"][:300], "candidates": [d.name for d in cands][:8]})
        finally:
            pr.close()
    probe.close()
    return acc


def main(tier, seed):
    t0 = time.time()
    params = {"programs": 4000 if tier == "quick" else 80000, "per_program": 6, "budget": 90 if tier == "quick" else 1500}
    acc = run_sharded(shard, seed, tier, params)
    return finish(
        "C15", tier, seed, acc, t0,
        rule="error-free ProgGen projects as for C16; for up to 6 symbols per project (labels, constants, macros, macro parameters; shadowed "
             "names, dotted/super uses, uses in macro bodies, untaken branches, other files through imports) prepareRename is asked at "
             "the definition or a use; where a rename is offered, textDocument/rename with a fresh name must return edits at exactly the "
             "recorded occurrences of that symbol in all files, the edited project must assemble (real library) to identical bytes "
             "without diagnostics, and - with a same-length name - renaming back at the same position must restore every file byte for "
             "byte. The buffers are re-sent before each request. Non-trivial = distinct rename whose result preserved the bytes.",
        assumptions=["symbols with uses inside never-invoked macros or zero-iteration loops are not renamed by the check (the server cannot bind those uses)",
                     "new names are fresh; a name equal to one in an unrelated scope is not yet exercised"])
