"""C08 - layout does not change meaning: the same abstract program rendered with hostile trivia/case/CRLF variants."""
import re
import time

from ..common import Acc, Probe, finish, rng_for, run_sharded
from ..gen import prog as P
from ..gen import render

OPS = ["parse", "codegen", "symbols"]
ERRORS = ["lda #300", "jmp undefined_sym", ".byte nosuch + 1", "bne * + 500", "lda ($1234),y", "stx $10,x", "nomacro(1)", '.segment "nosuchseg"',
          ".const dup_c = 1\n.const dup_c = 2", "inc #1"]


def observe(res):
    """What must be invariant: (bytes per segment, symbol values by path, diagnostic messages without positions)."""
    if "parse" not in res:
        return ("probe", repr(res)[:200])
    pd = res["parse"].get("diags") or []
    if pd:
        return ("parse-diags", tuple(sorted(norm(d["msg"]) for d in pd)))
    cg = res.get("codegen", {})
    if "panic" in cg:
        return ("panic", cg["panic"])
    if cg.get("diags"):
        return ("diags", tuple(sorted(norm(d["msg"]) for d in cg["diags"])))
    ctx = cg["ctx"]
    segs = tuple((s["name"], s["start"], s["bytes"]) for s in ctx["segments"])
    final = max([s.get("pass", 0) for s in ctx["symbols"] if s.get("span")] or [0])
    # anonymous scopes are numbered in the order in which files happen to be parsed (hash order, see C10): names normalised
    syms = tuple(sorted((re.sub(r"\$scope_\d+", "$scope", s["path"]), str(s["val"])) for s in ctx["symbols"]
                        if s["kind"] != "macro" and (not s.get("span") or s.get("pass") == final)))
    return ("ok", segs, syms)


def norm(msg):
    # messages quoting source text (unexpected '...') legitimately differ in their quoted trivia
    return re.sub(r"\s+", " ", msg)


def first_diff(a, b):
    if a[0] != b[0]:
        return "outcome %s vs %s: %s | %s" % (a[0], b[0], str(a[1])[:200], str(b[1])[:200])
    if a[0] == "ok":
        if a[1] != b[1]:
            for x, y in zip(a[1], b[1]):
                if x != y:
                    return "segment %s bytes differ" % x[0]
            return "segment list differs"
        sa, sb = set(a[2]), set(b[2])
        for k in sorted(sa ^ sb):
            return "symbol %s = %s only in %s" % (k[0], k[1], "original" if k in sa else "variant")
    return "diagnostics differ: %s vs %s" % (str(a[1])[:200], str(b[1])[:200])


def classify(diff, ov, vv):
    if vv[0] == "parse-diags" and ov[0] != "parse-diags":
        m = vv[1][0] if vv[1] else ""
        return "variant-rejected|" + re.sub(r"'.*'", "'..'", m)[:50]
    return "differs|%s->%s|%s" % (ov[0], vv[0], re.sub(r"[\$0-9a-f_A-Z]+", "", diff)[:40])


# hand-written spellings of one statement that differ only in blanks/comments between tokens (the special operands the generator
# does not produce: the scope symbols - and +, `*`, modifiers, unary operators next to binary ones)
SPELLINGS = [
    ["lda -+1", "lda - + 1", "lda -\t+ 1", "lda - /*c*/ + 1"], ["cmp --1", "cmp - - 1", "cmp - -1"], ["sta -+2,x", "sta - + 2,x", "sta - + 2 , x"],
    ["lda ++1", "lda + + 1"], ["lda +-1", "lda + - 1"], ["lda *+3", "lda * + 3", "lda */*c*/+ 3"], ["lda **2", "lda * * 2"], ["lda #<-", "lda # <-", "lda #< -"],
    ["lda #>+", "lda #> +"], ["bne -", "bne  -", "bne\t-"], ["lda #!-v", "lda #! -v", "lda #!- v"], ["lda #-v", "lda # -v"], ["lda #1--v", "lda #1 - -v", "lda #1- -v"],
    ["lda #1-!v", "lda #1 - !v"], ["lda (-),y", "lda ( - ) , y", "lda (- ),y"], ["lda (+,x)", "lda ( + , x )"], ["jmp (-)", "jmp ( - )"], [".word -,+,*", ".word - , + , *"],
    [".byte <-,>+", ".byte < - , > +", ".byte <- , >+"], [".byte v*-v", ".byte v * -v", ".byte v *-v"], [".byte -v*v", ".byte -v * v"], [".word *-(-)", ".word * - (-)", ".word * -( - )"],
    [".if -<+ { nop }", ".if - < + { nop }"], [".byte -==-, +!=-", ".byte - == -, + != -"], [".byte v<<1, v>>1", ".byte v << 1, v >> 1"], [".word -^+", ".word - ^ +"], [".byte -&&+, -||+", ".byte - && +, - || +"],
]


def spelling_cases(acc, probe):
    """Every spelling of a group, placed in the same surrounding program, must assemble to the same bytes (or be rejected alike)."""
    for group in SPELLINGS:
        outcomes = []
        for text in group:
            src = ".const v = 3\nsc: {\n    nop\n    nop\n    %s\n    nop\n}\n" % text
            acc.evaluations += 1
            outcomes.append((text, observe(probe.ask({"files": {"main.asm": src}, "ops": OPS, "opts": {"pc": 0x2000}})), src))
        first = outcomes[0]
        for text, o, src in outcomes[1:]:
            if o != first[1]:
                acc.violation("spelling-differs|%s" % first[0].split()[0], "%r and %r differ only in blanks/comments between tokens: %s" % (first[0], text, first_diff(first[1], o)),
                              {"original": {"main.asm": first[2]}, "variant": {"main.asm": src}, "orig_outcome": str(first[1])[:400], "variant_outcome": str(o)[:400]})
            else:
                acc.nontriv("spelling", text)
        acc.count("spelling_groups." + first[1][0])


def shard(idx, n, seed, tier, params):
    acc = Acc()
    probe = Probe()
    rng = rng_for(seed, "c08", idx)
    t_end = time.time() + params["budget"]
    if idx == 0:
        spelling_cases(acc, probe)
    for i in range(params["programs"] // n):
        if time.time() > t_end:
            acc.count("budget_cut")
            break
        prog = P.generate(rng, {"max_bytes": 300, "top_stmts": 10})
        inject = rng.random() < 0.2
        if inject:
            body = prog.files["main.asm"]
            pos = rng.randrange(len(prog.segments) + 1 if prog.has_segments else 0, len(body) + 1)
            body.insert(pos, P.Stmt("raw", prog.root, text=rng.choice(ERRORS)))
            if pos < len(body) - 1 and body[pos + 1].k == "braces":
                body.insert(pos + 1, P.Stmt("instr", prog.root, mn="nop", form="none", expr=None))
        try:
            files, _ = render.render_program(prog)
        except render.SpellError:
            acc.count("generator.unspellable")
            continue
        base = probe.ask({"files": files, "ops": OPS, "opts": {"pc": prog.base_pc}})
        ov = observe(base)
        if ov[0] in ("probe", "panic"):
            acc.count("skipped." + ov[0])
            continue
        if ov[0] == "parse-diags":
            acc.violation("generator|parse-error", "plain rendering does not parse: %s" % (ov[1],), {"files": files})
            continue
        acc.count("base." + ov[0])
        for v in range(params["variants"]):
            lay = render.Hostile(rng)
            vfiles, _ = render.render_program(prog, lay)
            acc.evaluations += 1
            res = probe.ask({"files": vfiles, "ops": OPS, "opts": {"pc": prog.base_pc}})
            vv = observe(res)
            for (b, t), c in lay.stats.items():
                acc.cover("boundary_x_trivia", "%s/%s" % (b, t))
            acc.count("crlf_variants" if lay.crlf else "lf_variants")
            if vv[0] in ("probe",):
                acc.inconc("probe: %s" % vv[1])
                continue
            if vv != ov:
                d = first_diff(ov, vv)
                acc.violation(classify(d, ov, vv), d, {"original": files, "variant": vfiles, "base_pc": prog.base_pc,
                                                     "orig_outcome": str(ov)[:600], "variant_outcome": str(vv)[:600]})
            else:
                acc.nontriv(tuple(sorted(vfiles.items())))
        if i == 0:
            acc.sample({"original": files["main.asm"][:300], "variant": vfiles["main.asm"][:500]})
    probe.close()
    return acc


def main(tier, seed):
    t0 = time.time()
    params = {"programs": 12000 if tier == "quick" else 200000, "variants": 4, "budget": 80 if tier == "quick" else 1200}
    acc = run_sharded(shard, seed, tier, params)
    return finish(
        "C08", tier, seed, acc, t0,
        rule="ProgGen programs (20% with one injected semantic error so that diagnostics are compared) rendered once plainly and 4 times "
             "by the hostile layout: blanks/tabs/nested block comments/comments containing code-like text at every token boundary where "
             "the grammar accepts trivia (same-line trivia inside statements; newlines, blank lines and line comments between statements "
             "and before `{` `}` else from), LF or CRLF, random letter case of mnemonics/directives/registers/as/from/else/encodings/hex "
             "digits, leading zeros and radix of literals. Bytes per segment, final symbol values by path and diagnostic messages "
             "(positions stripped) must be identical. Plus 26 hand-written groups of spellings of one statement (scope symbols - and +, `*`, modifiers and unary "
             "operators next to binary ones, with and without blanks/comments between the tokens). Non-trivial = distinct variant text that agreed.",
        assumptions=["the whitelist of trivia positions is the renderer's reading of the grammar's ws/mws wrappers"])
