"""Per-check texts for MANIFEST.json (see tools_manifest.py)."""
CHECKS = {
    "C01": {
        "engine": "probe",
        "category": "exploration",
        "technique": "runtime monitoring: exhaustive enumeration of the finite form/branch/pair spaces through the real assembler, judged by an independent ISA table",
        "text": "Every (mnemonic x syntactic form x boundary value x radix) row, every branch distance -140..140 in six placements and (thorough) every ordered pair of 1125 statement forms with 4 separators is assembled by the real library and compared byte-for-byte with a hand-written 151-opcode ISA table; illegal cases must yield a diagnostic. The finite spaces are enumerated completely, operand values by boundary classes plus seeded random values/expressions.",
        "note": "Trusts harness/oracle/isa6502.py. Operands outside 0..65535 are observed, not judged. Quick tier covers the pair space by representative mnemonics squared plus a 150k seeded sample; thorough enumerates it completely.",
    },
    "C02": {
        "engine": "probe",
        "category": "exploration",
        "technique": "runtime monitoring: fixed-point certificate checker over the assembler's claimed symbol values and images for generated programs with ground-truth bindings (+ CLI slice for .vs/.prg)",
        "text": "ProgGen builds abstract programs whose every identifier use is bound to a chosen definition and spelled so that the documented lookup rule resolves to it (plain, dotted, super-chains, import aliases). Each program that assembles is walked in emission order with a running pc: every label, block -/+ symbol and constant must equal what the walk demands, every instruction and data item must encode its expression under the claimed final values (ISA table, zero-page exactly when value <= 255), images must be exact including `* =` gaps, .align padding and relocated segments; the VICE export must list exactly the labels of the final pass. Segments start around $00E0-$0100 so that zp/abs flips move later labels; evidence reports pass-count histogram and how many programs changed symbol values after pass 2.",
        "note": "Trusts isa6502.py/exprval.py/certcheck.py and the generator's model of the lookup rule (a mis-spelled reference would show as a certificate failure, i.e. a false alarm, never as a missed violation). Rejected programs are not judged. -/+ inside loop bodies are left to C07.",
    },
    "C03": {
        "engine": "probe",
        "category": "exploration",
        "technique": "runtime monitoring: random expression trees assembled by the real library, judged by an unbounded-integer reference evaluator; failing trees are shrunk to a minimal subtree",
        "text": "Seeded random expression trees (depth <= 5, all 16 binary operators, !, -, !-, </> modifiers, defined(), three radixes with leading zeros, true/false, constants, backward/forward/dotted labels, `*`, strings with interpolation) are rendered with parentheses exactly where the documentation fixes no precedence, stored with .dword/.word/.byte/.text and compared with Python integer arithmetic restricted to the stated domain. Precedence/associativity are thereby exercised exactly as far as specified; coverage of (parent op, child op, side) pairs is reported.",
        "note": "Trusts harness/oracle/exprval.py. Assumes / and % truncate toward zero. PETSCII/screen codes judged on the unambiguous subset only. `-<name` is always parenthesised (ambiguous with the scope identifier `-`).",
    },
    "C05": {
        "engine": "probe",
        "category": "exploration",
        "technique": "runtime monitoring: round-trip oracle (Display of parsed tokens vs input) plus end-of-file marker bytes over mutation-complete and random texts",
        "text": "Every repository source/guide snippet, every single-character insert/delete/replace (hostile alphabet incl. ) } CR NUL non-ASCII) at every position of 30 short programs covering the statement grammar, and random multi-edit mutants/concatenations are parsed and built by the real library. Whenever no diagnostic is reported the concatenated Display of the tokens must equal the text (CRLF->LF, keyword case) and a marker statement appended at the end must have left its bytes in the image - two independent observations of 'nothing silently ignored'.",
        "note": "Judges only texts that parse and build without diagnostics (those are the executions that could ignore text silently). Keyword case-insensitivity limited to mnemonics/directives/as/from/else/encodings/x/y.",
    },
    "C06": {
        "engine": "probe",
        "category": "exploration",
        "technique": "runtime monitoring: per-stage panic/abort capture in-process and at the CLI boundary, diagnostic-location checks, and a per-pass state-digest observer (hook H1) that decides non-termination without a timer",
        "text": "Hostile inputs (directive templates x extreme integer spellings, hostile names, truncated/recursive/huge specials, import graphs with cycles, repository sources, seeded mutants, random characters, generators for oscillating branches / zp-abs flips / mutually dependent segments; real-file CLI slice with invalid UTF-8, directories and symlinks in place of files, broken mos.toml) are run through parse, Display, build-mode and analysis-mode codegen, format, listing, bank merge and symbol export. Any panic, abort (stack overflow, allocation failure), located diagnostic outside the project, or a pass loop still running at 1500 passes with a periodic state sequence is a violation.",
        "note": "Watchdog timeouts (e.g. `.loop 2^63 { nop }`, which iterates in pass 0 without a segment) are inconclusive, never violations, and are listed in the evidence as hang suspects. Release semantics. Unreadable files emulated (sandbox runs as root).",
    },
    "C07": {
        "engine": "probe",
        "category": "exploration",
        "technique": "runtime monitoring: metamorphic oracle bytes(P) == bytes(expand(P)) with expand() implemented as a rewrite on abstract programs; expansions are additionally certificate-checked",
        "text": "For seeded ProgGen programs 1-3 construct kinds (loop, if, macro, const, brace scope, import) are expanded by hand exactly as the property words it (with deep copies, alpha-renaming and re-spelling of every reference) and both texts are assembled by the real library; segment bytes must be identical, and every fourth expansion must also pass the certificate checker, tying the pair to absolute semantics. Nesting pairs covered are reported. One program in eight uses -/+ of brace scopes inside loop bodies, the trigger of the known loop-scope finding; deterministic witnesses of the known findings are re-checked on every run.",
        "note": "An expansion that the assembler rejects only because its passes do not settle ('unknown identifier' for a symbol that is defined) is counted, not judged. Macro bodies expanded into loop bodies are composed with the loop expansion (labels cannot live in loop bodies, see known findings).",
    },
    "C08": {
        "engine": "probe",
        "category": "exploration",
        "technique": "runtime monitoring: metamorphic oracle - one abstract program rendered with hostile trivia/case/CRLF variants must assemble to identical bytes, symbols and diagnostics",
        "text": "Each ProgGen program (20% with an injected semantic error) is rendered plainly and four times by a layout engine that inserts blanks, tabs, nested and multi-line block comments, comments containing code-like text, blank lines, CRLF and random letter case/radix/leading zeros at every boundary where the grammar's ws/mws wrappers accept them; the real library must report identical segment bytes, final symbol values and diagnostic messages. Coverage of (boundary kind x trivia kind) pairs is reported.",
        "note": "The whitelist of trivia positions is the renderer's reading of the grammar; a wrong whitelist shows up as a false alarm (variant rejected), not as a miss. Anonymous scope numbers are normalised (hash-order dependent, see C10).",
    },
    "C11": {
        "engine": "probe",
        "category": "exploration",
        "technique": "runtime monitoring: source-map entries and listing rows of the real library compared with the emission record of the certificate walker (independent ground truth), plus CLI slice for .lst files",
        "text": "For every generated program that assembles and passes the certificate checker, the walker's record of (statement span, target address, length, macro invocation) must equal the source map as a multiset in both attribution modes; listings with 1..16 bytes per row are parsed and must show every source line once and in order, the target address of each row's first byte, the line's bytes in emission order and every emitted byte exactly once - also for relocated segments, loops, imports and macros invoked several times. Every 15th program is built by `mos build` with listing = true and the .lst files compared.",
        "note": "Plain layout (one statement per line). Trusts the walker (itself validated against the images by C02).",
    },
    "C12": {
        "engine": "probe",
        "category": "exploration",
        "technique": "runtime monitoring: the real formatter on hostile-layout programs x random configurations, judged by an independent lexer (tokens, uniquely tagged comments) and by re-assembling; CLI slice for `mos format`",
        "text": "Programs in hostile layout (every generated comment carries a unique id and the boundary it was inserted at) are formatted by the library with random options; the result must parse, keep the token sequence (independent lexer) and every comment id in order, and assemble to the same bytes/symbols/diagnostics. Every 40th program is also formatted by the real `mos format` in a directory: files must equal the library text, and with a parse error injected into one file no file may change.",
        "note": "Statement kinds covered are those ProgGen emits (no .test/.assert/.trace/.file/bank definitions yet). Comment text compared modulo inner whitespace.",
    },
    "C13": {
        "engine": "probe",
        "category": "exploration",
        "technique": "runtime monitoring: format(format(p)) == format(p) on hostile-layout programs x random configurations, with a clean sub-domain that excludes the triggers of the known findings",
        "text": "Same workload as C12. Half of the programs stay inside a clean sub-domain (no multi-line block comments, no comments around `else`, no block comments in front of statements, same-line braces when an `else` exists) where the pinned tree is idempotent, so any drift there is a new violation with a specific signature; the other half exercises the full domain, where three natures of drift are genuine known findings.",
        "note": "Known findings are keyed by nature of drift in the full domain only (indentation / blank-line / line-break); content drift or any drift in the clean sub-domain is reported as VIOLATION.",
    },
}
NOT_APPLICABLE = {}
