"""./vcheck replay <file>: re-runs the recorded case against the current tree and prints expectation vs observation."""
import json
import os

from . import common


def main(path):
    common.ensure_built()
    d = json.load(open(path))
    w = d.get("witness", {})
    print("property :", d.get("property"))
    print("signature:", d.get("signature"))
    print("recorded :", d.get("summary"))
    probe = common.Probe()
    shown = False
    for key in ("files", "P", "original", "disk"):
        if isinstance(w.get(key), dict) and "main.asm" in w[key] and all(isinstance(v, str) for v in w[key].values()):
            files = w[key]
            r = probe.ask({"files": files, "ops": ["parse", "display", "codegen", "greedy", "format", "listing", "merge", "vice", "symbols"],
                           "opts": {"pc": w.get("base_pc", 0x2000)}})
            print("---- library on witness[%r] (parse/build-mode/analysis-mode):" % key)
            print("parse diagnostics :", [x["msg"] for x in r.get("parse", {}).get("diags", [])] if "parse" in r else r)
            for stage in ("codegen", "greedy"):
                c = r.get(stage, {})
                print("%-8s         :" % stage, c.get("panic") or [x["msg"] for x in c.get("diags", [])], "passes", c.get("passes", {}).get("n"),
                      "segments", [(s["name"], hex(s["start"]), s["bytes"][:60]) for s in c.get("ctx", {}).get("segments", [])])
            shown = True
            break
    if "src" in w:
        r = probe.ask({"batch": [w["src"]], "display": True})
        print("---- library on the recorded source:", json.dumps(r.get("results", r))[:1500])
        shown = True
    if "text" in w:
        r = probe.ask({"batch": [w["text"]], "display": True})
        print("---- library on the recorded text:", json.dumps(r.get("results", r))[:1500])
        shown = True
    if "main.asm" in w:
        for cmd in (["build"], ["test"]):
            with common.TempProject({"main.asm": w["main.asm"]}, w.get("mos.toml", "")) as tp:
                r = common.run_mos(["--no-color", "-e", "Short"] + cmd, tp.dir)
                print("---- mos %s: exit %s\n%s%s" % (cmd[0], r["rc"], r["out"][-1200:], r["err"][-600:]))
                t = os.path.join(tp.dir, "target")
                if os.path.isdir(t):
                    print("target:", {f: open(os.path.join(t, f), "rb").read().hex()[:80] for f in sorted(os.listdir(t))})
        shown = True
    if not shown:
        print("(this witness records a protocol session; see its 'log'/'events'/'response' fields)")
        print(json.dumps(w, indent=1, default=str)[:3000])
    print("expected :", json.dumps(w.get("expected", w.get("expected_value", "see summary")), default=str)[:800])
    probe.close()
    return 0
