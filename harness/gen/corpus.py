"""Source texts taken from the repository itself: examples, test data, code blocks of the guide."""
import glob
import os
import re

from ..common import REPO


def repo_sources():
    out = []
    pats = ["examples/**/*.asm", "mos/test-data/**/*.asm", "mos-core/test-data/**/*.asm", "vscode/**/*.asm"]
    for pat in pats:
        for path in sorted(glob.glob(os.path.join(REPO, pat), recursive=True)):
            try:
                text = open(path, encoding="utf8").read()
            except (OSError, UnicodeDecodeError):
                continue
            if len(text) < 20000:
                out.append((os.path.relpath(path, REPO), text))
    return out


def doc_snippets():
    out = []
    for path in sorted(glob.glob(os.path.join(REPO, "docs/src/guide/*.md"))):
        text = open(path, encoding="utf8").read()
        for i, m in enumerate(re.finditer(r"```asm6502\n(.*?)```", text, re.S)):
            out.append(("%s#%d" % (os.path.relpath(path, REPO), i), m.group(1)))
    return out


def test_snippets():
    """String literals of the repository's own unit tests that look like assembly (inputs the authors thought of)."""
    out = []
    for path in sorted(glob.glob(os.path.join(REPO, "mos-core/src/**/*.rs"), recursive=True)):
        text = open(path, encoding="utf8").read()
        for i, m in enumerate(re.finditer(r'(?:check|test_codegen|check_err|test_codegen_err)\(\s*r?#?"((?:[^"\\]|\\.)*)"', text)):
            s = m.group(1).replace("\\n", "\n").replace('\\"', '"')
            if 2 < len(s) < 400:
                out.append(("%s@%d" % (os.path.relpath(path, REPO), i), s))
    return out


SHORT_PROGRAMS = [
    "lda #1\nsta $d020\nrts",
    "start: lda #<foo\nldx #>foo\nfoo: jmp start",
    "loop: {\n  dex\n  bne loop\n}",
    ".const x = 5\nlda #x + 1",
    ".var v = 1\n.var v = 2\n.byte v",
    "{\n nop\n bne -\n beq +\n nop\n}",
    ".macro m(a, b) {\n lda #a\n sta b\n}\nm(1, $d020)\nm(2, $d021)",
    ".loop 3 {\n .byte index\n}",
    ".if 1 { nop } else { brk }",
    ".if defined(foo) {\n nop\n}",
    ".byte 1, 2, $ff, %101\n.word $1234\n.dword 70000",
    '.text "hello"\n.text petscii "abc"\n.text petscreen "xyz"',
    "* = $1000\nnop\n.align 16\nnop",
    '.define segment {\n name = "a"\n start = $1000\n}\n.segment "a"\nnop',
    '.define bank {\n name = "b"\n}\n.define segment {\n name = "s"\n bank = "b"\n start = $4000\n}\nnop',
    '.segment "default" { nop }',
    "a: {\n b: {\n  c: nop\n }\n jmp a.b.c\n jmp super.a\n}",
    "lda ($10,x)\nlda ($10),y\njmp ($1234)\nlda $10,y\nldx $10,y",
    "asl\nlsr\nrol\nror\nasl $10",
    "/* block */ nop // line\n/* nested /* inner */ outer */\nnop",
    '.test "t" {\n lda #1\n .assert a == 1 "msg"\n .trace (a, x)\n brk\n}',
    ".trace\n.assert 1 == 1",
    'lda #(1 + 2) * 3\nlda #1 << 2 >> 1 ^ 3\nlda #7 % 4 / 2',
    ".const s = \"ab\"\n.const t = s + \"cd\"\n.text \"{t}!\"\n.byte s == t, s != t",
    "lda  #  1  +  2\nLDA #$FF\nLdA #%1010\nsta $D020 , X",
    "nop\r\nnop\r\n  lda #1\r\n",
    "lda #!0\nlda #-1\nlda #!-1\nlda #<$1234\nlda #>$1234",
    "lda #! -1\r\n.if !/* not */-foo { nop }\r\nfoo: lda #! /* a */ - /* b */ foo\r\n",
    ".byte $ ff, % 101, $/* hi */12\r\nlda # $ 10\r\n",
    "asl // x\n{ lsr }\nrol /* c */\nror  \nasl\t// y\nlsr /* a */ // b\n{ rol /* c */ }\n",
    ".trace ()\n.trace ( /* c */ )\n.trace (a)\n.trace ( a , x )\n.trace\n",
    "beq *\nbne * + 2\njmp *",
    ".file \"nonexistent.bin\"",
    "lbl:\nlbl2: nop\n  lbl3:   nop",
]
