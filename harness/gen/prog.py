"""ProgGen: abstract programs with ground truth.

Programs are generated as objects (not text). Every identifier *use* is created by choosing the definition it is to bind
to; the renderer then chooses a spelling that the assembler's lookup rule (full path tried at every level from the
innermost scope outward, `super` = parent, no bubbling once `super` is used) resolves to that definition.
"""
import itertools

from ..oracle import isa6502 as isa

_uid = itertools.count(1)


class Scope:
    """A lexical scope. kind: root | named | brace | loop | macro | import"""

    def __init__(self, kind, parent, name=None, file=None):
        self.uid = next(_uid)
        self.kind = kind
        self.parent = parent
        self.name = name          # only for named scopes (label blocks) and `as` namespaces
        self.defs = {}            # name -> Def declared directly in this scope
        self.named = {}           # name -> Scope (label blocks)
        self.file = file if file is not None else (parent.file if parent else None)
        # lookups from inside a macro body / imported file continue at the *use* site, which the generator keeps
        # unambiguous by only referring to root-unique names from there
        self.barrier = kind in ("macro", "import")

    def chain(self):
        s, out = self, []
        while s is not None:
            out.append(s)
            s = s.parent
        return out

    def depth(self):
        return len(self.chain()) - 1


class Def:
    """kind: label | const | var | param | index | macro | strconst"""

    def __init__(self, name, kind, scope, expr=None):
        self.uid = next(_uid)
        self.name = name
        self.kind = kind
        self.scope = scope
        self.expr = expr
        self.pos = None           # (file, line, col0, col1, offset) of the defining name, set by the renderer
        self.root_unique = False
        self.live = True          # False: defined inside an untaken branch / a loop that runs zero times
        scope.defs[name] = self

    def __repr__(self):
        return "<%s %s#%d>" % (self.kind, self.name, self.uid)


class Stmt:
    def __init__(self, k, scope, **kw):
        self.k = k
        self.scope = scope
        self.uid = next(_uid)
        self.__dict__.update(kw)
        self.marks = {}           # name -> (file, line0, col0, line1, col1, off0, off1) set by the renderer

    def __repr__(self):
        return "<Stmt %s#%d>" % (self.k, self.uid)


class Program:
    def __init__(self):
        self.files = {}           # name -> list[Stmt]
        self.main = "main.asm"
        self.root = Scope("root", None, file="main.asm")
        self.base_pc = 0x2000
        self.has_segments = False
        self.features = set()

    def all_stmts(self):
        for name, body in self.files.items():
            yield from iter_stmts(body)


def iter_stmts(body):
    for s in body:
        yield s
        for sub in sub_blocks(s):
            yield from iter_stmts(sub)


def sub_blocks(s):
    if s.k in ("label", "braces", "loop", "macrodef", "seguse", "test"):
        return [s.block] if s.block is not None else []
    if s.k == "if":
        return [s.then] + ([s.else_] if s.else_ is not None else [])
    if s.k == "import":
        return [s.block] if s.block is not None else []
    return []


# ---------------------------------------------------------------------------------------------------------------
# model of the lookup rule, used ONLY to choose spellings (what the build really bound is checked via the values)
# Build mode never sees a definition inside an untaken branch or a loop that runs zero times; the analysis mode of the language
# server does. Monitors that only judge builds let such definitions be invisible (a plain name may then be spelled past
# them); the others keep the conservative spelling that is right in both modes. Set from the `dead_defs_invisible` knob.
DEAD_DEFS_INVISIBLE = False


def _down(scope, path):
    """Resolve path (list of names, may contain 'super') downward from scope. Returns Def | Scope | None."""
    cur = scope
    for i, name in enumerate(path):
        if cur is None or not isinstance(cur, Scope):
            return None
        if name == "super":
            cur = cur.parent
            continue
        last = i == len(path) - 1
        if last:
            if name in cur.defs and not (DEAD_DEFS_INVISIBLE and not cur.defs[name].live):
                return cur.defs[name]
            return None
        cur = cur.named.get(name)
    return cur


def model_lookup(site, path):
    if "super" in path:
        return _down(site, path)
    s = site
    while s is not None:
        r = _down(s, path)
        if r is not None:
            return r
        s = s.parent
    return None


def spell(site, d):
    """A path (list of names) that resolves from scope `site` to definition `d`, or None when there is none."""
    # path downward from each ancestor A of site to d through named scopes only
    dchain = d.scope.chain()
    for k, anc in enumerate(site.chain()):
        if anc not in dchain:
            continue
        # names from anc down to d.scope
        down = []
        s = d.scope
        ok = True
        while s is not anc:
            if s.kind != "named":
                ok = False
                break
            down.append(s.name)
            s = s.parent
        if not ok:
            continue
        rel = list(reversed(down)) + [d.name]
        if model_lookup(site, rel) is d:
            return rel
        sup = ["super"] * k + rel
        if all(not a.barrier for a in site.chain()[:k]) and model_lookup(site, sup) is d:
            return sup
        return None
    return None


# ---------------------------------------------------------------------------------------------------------------
NAMES = ["foo", "bar", "baz", "qux", "lp", "tmp", "ptr", "cnt", "buf", "src", "dst", "val", "acc", "idx2", "here", "there",
         "alpha", "beta", "gamma", "delta", "one", "two", "data", "code", "main", "init", "done", "next", "prev", "top",
         "a1", "b2", "c3", "_x", "_tmp", "Mixed", "UPPER", "snake_case", "x9", "ldax", "nopx", "asx", "fromx", "elsey",
         "trueval", "falsey", "true_1", "False2", "inc16", "sector", "bitmap", "andy", "tax_", "defined_x", "asciiz"]
RESERVED = set(isa.MNEMONICS) | {"x", "y", "as", "from", "else", "super", "index", "true", "false", "ascii", "petscii", "petscreen", "defined", "segments"}
NONBRANCH = [m for m in isa.MNEMONICS if m not in isa.BRANCHES]
IMPLIED = [m for m in NONBRANCH if "imp" in isa.ISA[m]]
MEM_FORMS = {"v": ("zp", "abs"), "v,x": ("zpx", "abx"), "v,y": ("zpy", "aby")}


def separate(body, with_label=False):
    """`label:` / `.segment "x"` / `.import ...` directly followed by `{` would take the braces as their own block.

    A `nop` is put in between, or (with_label, for rewritten programs whose bytes must not change) a fresh label."""
    i = 0
    while i < len(body):
        s = body[i]
        for sub in sub_blocks(s):
            separate(sub, with_label)
        if i + 1 < len(body) and body[i + 1].k == "braces" and s.k in ("label", "seguse", "import") and s.block is None:
            if with_label:
                d = Def("sep_%d" % next(_uid), "label", s.scope)
                d.live = True
                body.insert(i + 1, Stmt("label", s.scope, d=d, block=None, bscope=None))
                # (a label directly followed by braces would again take them as its block: a constant does not)
                body[i + 1] = Stmt("const", s.scope, d=Def("sep_%d" % next(_uid), "const", s.scope), expr=("num", 0, "0"))
                body[i + 1].d.live = True
            else:
                body.insert(i + 1, Stmt("instr", s.scope, mn="nop", form="none", expr=None))
        i += 1


class Gen:
    """One random program. knobs: dict of feature weights/limits."""

    def __init__(self, rng, knobs=None):
        self.rng = rng
        self.k = dict(DEFAULT_KNOBS)
        if knobs:
            self.k.update(knobs)
        self.prog = Program()
        self.slots = []           # (stmt, attr, kind, site_scope) to be filled once all definitions exist
        self.const_val = itertools.count(self.rng.choice([3, 0x40, 0xF0, 0x1F0]))
        self.used_names = set()
        self.macros = []          # MacroDef stmts visible at root
        self.nbytes = 0
        self.gcount = itertools.count(0)
        self.exports = {}         # Def -> spelled path (list of names) in the importing scope

    # ---- names
    def fresh_name(self, scope, allow_shadow=True, prefer_shadow=False):
        rng = self.rng
        if prefer_shadow and rng.random() < 0.6:
            # (for a definition in an untaken branch) the name of a definition that is visible from here: a reference to that
            # one must not be captured by the definition that is never assembled
            outer = [n for a in scope.chain()[1:] for n, d in a.defs.items() if d.kind in ("label", "const") and n not in scope.defs and n not in scope.named]
            if outer:
                return rng.choice(outer)
        if scope.kind == "import":
            # top-level names of an imported file are exported into the importing scope by `*`: keep them unique
            return self.unique_name("i")
        if allow_shadow and scope.parent is not None and scope.kind not in ("import", "macro") and self.macros and rng.random() < self.k.get("p_macro_name_clash", 0.08):
            # a label/constant that has the name of a macro: invocations from inside this scope must still find the macro
            n = rng.choice(self.macros).d.name
            if n not in scope.defs and n not in scope.named:
                return n
        for _ in range(50):
            n = rng.choice(NAMES)
            if rng.random() < 0.3:
                n = n + str(rng.randrange(10))
            if n.lower() in RESERVED or n in scope.defs or n in scope.named:
                continue
            if not allow_shadow and n in self.used_names:
                continue
            self.used_names.add(n)
            return n
        n = "n%d" % next(_uid)
        self.used_names.add(n)
        return n

    def unique_name(self, prefix="g"):
        n = "%s_%d" % (prefix, next(self.gcount))
        self.used_names.add(n)
        return n

    # ---- statements
    def gen_program(self):
        rng, k, prog = self.rng, self.k, self.prog
        body = []
        root = prog.root
        nseg = 0
        if rng.random() < k["p_segments"]:
            nseg = rng.randrange(1, k["max_segments"] + 1)
            prog.has_segments = True
            starts = sorted(rng.sample([0x00E0, 0x00F8, 0x0200, 0x0801, 0x1000, 0x2000, 0x4000, 0x8000, 0xC000, 0xE000], nseg))
            prog.segments = []
            for i in range(nseg):
                name = "seg%d" % i
                pc = None
                if rng.random() < k["p_relocated"]:
                    pc = rng.choice([0x0100 - rng.randrange(1, 9), 0x0300, 0x9000, 0x00F0])
                st = Stmt("segdef", root, name=name, start=starts[i], pc=pc, write=True, bank=None)
                if pc is not None and rng.random() < k.get("p_pc_const", 0.3):
                    # the run address is given by a constant that is only defined at the end of the file
                    st.pc_def = Def(self.unique_name("pcc"), "const", root)
                    st.pc_def.root_unique = True
                    st.pc_def.value = pc
                prog.segments.append(st)
                body.append(st)
            prog.features.add("segments")
            if any(s.pc is not None for s in prog.segments):
                prog.features.add("relocated")
        else:
            prog.base_pc = rng.choice([0x2000, 0x2000, 0x00E8, 0x00F6, 0x0801, 0xC000])
        # imported files (each imported once)
        nimp = 0
        if rng.random() < k["p_import"]:
            nimp = rng.randrange(1, 3)
        self.import_plan = ["lib%d.asm" % i for i in range(nimp)]
        # macros at root
        for _ in range(rng.randrange(0, k["max_macros"] + 1) if rng.random() < k["p_macro"] else 0):
            body.append(self.gen_macrodef(root))
        if nseg:
            # explicit selection before any code; later switches in block and non-block form
            body.append(Stmt("seguse", root, name="seg0", block=None))
        body.extend(self.gen_block(root, 0, k["top_stmts"]))
        for fname in self.import_plan:
            body.insert(rng.randrange(len(body) - 0, len(body) + 1) if rng.random() < 0.5 else self._import_pos(body), self.gen_import(root, fname))
        if nseg > 1:
            # code for the other segments
            for i in range(1, nseg):
                blk = self.gen_block(root, 1, rng.randrange(1, 5))
                if rng.random() < 0.5:
                    body.append(Stmt("seguse", root, name="seg%d" % i, block=blk))
                else:
                    body.append(Stmt("seguse", root, name="seg%d" % i, block=None))
                    body.extend(blk)
        for st in (getattr(prog, "segments", None) or []):
            if getattr(st, "pc_def", None) is not None:
                body.append(Stmt("const", root, d=st.pc_def, expr=("num", st.pc, None)))
        if k.get("p_setpc_back", 0.0) and prog.has_segments and rng.random() < 0.5:
            # a segment of its own whose first bytes are written behind a gap, followed by one item that starts in the gap (below
            # everything written so far) and ends above it: one write that extends the range on both sides
            sd = Stmt("segdef", root, name="segback", start=0x6000, pc=rng.choice([None, 0x9800]), write=True, bank=None)
            prog.segments.append(sd)
            body.insert(len(prog.segments) - 1, sd)
            gap, kb = rng.randrange(2, 5), rng.randrange(1, 5)
            h = rng.randrange(1, gap + 1)
            blk = [Stmt("setpc", root, delta=gap),
                   Stmt("data", root, size=".byte", exprs=[("num", rng.randrange(256), None) for _ in range(kb)]),
                   Stmt("setpc", root, delta=-(kb + h)),
                   Stmt("text", root, enc=None, text="".join(rng.choice("abcdefgh01234") for _ in range(kb + h + rng.randrange(1, 6))))]
            body.append(Stmt("seguse", root, name="segback", block=blk))
        if k.get("p_setpc_back", 0.0) and rng.random() < 0.5:
            # the same shape as the last thing of the program (of the segment that is current then): nothing is written behind
            # the item that reaches below and above what the segment holds so far
            kb = rng.randrange(2, 7)
            body.append(Stmt("data", root, size=".byte", exprs=[("num", rng.randrange(256), None) for _ in range(kb)]))
            body.append(Stmt("setpc", root, delta=-rng.randrange(1, kb + 1)))
            body.append(Stmt("text", root, enc=None, text="".join(rng.choice("abcdefgh01234") for _ in range(rng.randrange(8, 13)))))
        # unit tests: a `.test` block is not assembled by a build, so it is inert for every oracle that judges bytes; its
        # statements (.assert with or without a message, .trace with or without arguments) are there for parser and formatter
        for ti in range(rng.randrange(1, 3) if rng.random() < k.get("p_test", 0.0) else 0):
            items = []
            for _ in range(rng.randrange(0, 5)):
                r = rng.random()
                if r < 0.4:
                    items.append(("ins", rng.choice(["lda", "ldx", "ldy", "inx", "dey", "nop", "clc", "sta", "tax"])))
                elif r < 0.8:
                    items.append(("assert", rng.randrange(4), rng.choice([None, None, "msg %d" % rng.randrange(100), "a \u00e9 b"])))
                else:
                    items.append(("trace", rng.choice([None, 1, 2])))
            if rng.random() < 0.7:
                items.append(("ins", "brk"))
            st = Stmt("testraw", root, name="t%d_%d" % (ti, rng.randrange(1000)), items=items)
            body.insert(rng.randrange(len(prog.segments) + (1 if prog.has_segments else 0) if prog.has_segments else 0, len(body) + 1), st)
        prog.files["main.asm"] = body
        for fbody in list(prog.files.values()):
            self._separate(fbody)
        self.fill_slots()
        prog.exports = self.exports
        return prog

    def _separate(self, body):
        separate(body)


    def _import_pos(self, body):
        # not directly in front of a braces statement (an import followed by `{` takes it as its parameter block)
        for _ in range(10):
            i = self.rng.randrange(len(body) + 1)
            if i < len(body) and body[i].k == "braces":
                continue
            if self.prog.has_segments and i < len(self.prog.segments) + 1:
                continue
            return i
        return len(body)

    def gen_block(self, scope, depth, n, in_macro=False, in_loop=False, in_import=False, live=True, in_if=False):
        rng, k = self.rng, self.k
        out = []
        for _ in range(n):
            if self.nbytes > k["max_bytes"]:
                break
            r = rng.random()
            prev = out[-1] if out else None
            no_brace_next = prev is not None and ((prev.k == "label" and prev.block is None) or (prev.k == "seguse" and prev.block is None)
                                                    or (prev.k == "import" and prev.block is None))
            if r < 0.34:
                out.append(self.gen_instr(scope, in_loop))
            elif r < 0.44:
                out.append(self.gen_data(scope))
            elif r < 0.47:
                out.append(self.gen_text(scope))
            elif r < 0.57 and not in_loop:
                nm = self.fresh_name(scope, prefer_shadow=not live and DEAD_DEFS_INVISIBLE)
                d = Def(nm, "label", scope)
                d.live = live
                d.in_if = in_if
                if depth < k["max_depth"] and rng.random() < 0.4:
                    sc = Scope("named", scope, name=nm)
                    scope.named[nm] = sc
                    st = Stmt("label", scope, d=d, block=None, bscope=sc)
                    st.block = self.gen_block(sc, depth + 1, self._nstmts(1, 5), in_macro, in_loop, in_import, live, in_if)
                else:
                    st = Stmt("label", scope, d=d, block=None, bscope=None)
                out.append(st)
            elif r < 0.63 and depth < k["max_depth"] and not no_brace_next:
                sc = Scope("brace", scope)
                st = Stmt("braces", scope, bscope=sc, block=None)
                st.block = self.gen_block(sc, depth + 1, self._nstmts(1, 5), in_macro, in_loop, in_import, live, in_if)
                out.append(st)
            elif r < 0.70 and not in_loop:
                nm = self.fresh_name(scope, prefer_shadow=not live and DEAD_DEFS_INVISIBLE)
                d = Def(nm, "const", scope)
                d.live = live
                d.in_if = in_if
                st = Stmt("const", scope, d=d, expr=None)
                self.slots.append((st, "expr", "constval", scope))
                out.append(st)
            elif r < 0.73:
                # variable: defined, then redefined; references only after the first definition
                nm = self.unique_name("v")
                d = Def(nm, "var", scope)
                d.root_unique = True
                st = Stmt("var", scope, d=d, expr=("num", rng.randrange(0, 200), None))
                out.append(st)
                out.append(Stmt("data", scope, size=".byte", exprs=[("ref", d, None)]))
                out.append(Stmt("var", scope, d=d, expr=("bin", "+", ("ref", d, None), ("num", rng.randrange(1, 5), None)), redefinition=True))
                out.append(Stmt("data", scope, size=".byte", exprs=[("ref", d, None)]))
                self.nbytes += 2
            elif r < 0.76 and depth == 0 and not in_macro and not in_import and rng.random() < k["p_setpc"]:
                # (`* = * + n` skips n bytes; inside a segment - also one with a `pc` of its own - only a few, segments lie close together)
                delta = rng.choice([1, 3, 16, 0x20, 0x100]) if not self.prog.has_segments else rng.choice([1, 2, 3])
                out.append(Stmt("setpc", scope, delta=delta))
                self.nbytes += delta if self.prog.has_segments else 0
            elif r < 0.77 and depth == 0 and not in_macro and not in_import and not in_loop and rng.random() < k.get("p_setpc_back", 0.0):
                # a few bytes, then `* = * - j` back over some of them, then one item that is longer than what is left: it starts
                # below the highest address written so far and ends above it (what is written later wins)
                kb = rng.randrange(2, 7)
                out.append(Stmt("data", scope, size=".byte", exprs=[("num", rng.randrange(256), None) for _ in range(kb)]))
                out.append(Stmt("setpc", scope, delta=-rng.randrange(1, kb + 1)))
                if rng.random() < 0.5:
                    out.append(Stmt("data", scope, size=".dword", exprs=[("num", rng.randrange(1 << 32), None)] * rng.randrange(1, 3)))
                else:
                    out.append(Stmt("text", scope, enc=None, text="".join(rng.choice("abcdefgh01234") for _ in range(rng.randrange(7, 12)))))
                self.nbytes += kb + 12
            elif r < 0.79 and rng.random() < k["p_align"]:
                out.append(Stmt("align", scope, n=rng.choice([2, 4, 8, 16, 3])))
                self.nbytes += 8
            elif r < 0.85 and depth < k["max_depth"] and rng.random() < k["p_loop"]:
                sc = Scope("loop", scope)
                idx = Def("index", "index", sc)
                cnt = rng.choice([0, 1, 2, 3, 4])
                st = Stmt("loop", scope, count=cnt, bscope=sc, index=idx, block=None)
                st.block = self.gen_block(sc, depth + 1, self._nstmts(1, 4), in_macro, True, in_import, live and cnt > 0, in_if)
                self.nbytes += self._est(st.block) * max(0, cnt - 1)
                out.append(st)
            elif r < 0.91 and depth < k["max_depth"] and rng.random() < k["p_if"]:
                st = Stmt("if", scope, cond=None, then=None, else_=None, taken=rng.random() < 0.5)
                self.slots.append((st, "cond", "cond", scope))
                st.then = self.gen_block(scope, depth + 1, self._nstmts(1, 4), in_macro, in_loop, in_import, live and st.taken, True)
                if rng.random() < 0.6:
                    st.else_ = self.gen_block(scope, depth + 1, self._nstmts(1, 4), in_macro, in_loop, in_import, live and not st.taken, True)
                out.append(st)
            elif r < 0.93 and self.prog.has_segments and depth < k["max_depth"] and not in_import and rng.random() < k.get("p_nested_segment", 0.0):
                # a segment block inside other code (a scope, a loop, a macro body): what it emits goes to that segment,
                # what follows continues where the enclosing code was
                seg = rng.choice(self.prog.segments)
                st = Stmt("seguse", scope, name=seg.name, block=None)
                st.block = self.gen_block(scope, depth + 1, self._nstmts(1, 4), in_macro, in_loop, in_import, live, in_if)
                out.append(st)
            elif r < 0.97 and self.macros and not in_macro:
                m = rng.choice(self.macros)
                st = Stmt("macrocall", scope, m=m, args=[None] * len(m.params))
                for i in range(len(m.params)):
                    self.slots.append((st, ("args", i), "arg", scope))
                self.nbytes += self._est(m.block)
                out.append(st)
            else:
                out.append(self.gen_instr(scope, in_loop))
        return out

    def _nstmts(self, lo, hi):
        """Number of statements of a block; now and then a block is empty (or, in the hostile layout, holds only comments)."""
        if self.rng.random() < self.k.get("p_empty_block", 0.05):
            return 0
        return self.rng.randrange(lo, hi)

    def _est(self, block):
        n = 0
        for s in iter_stmts(block):
            if s.k == "instr":
                n += 3
            elif s.k == "data":
                n += 4 * len(s.exprs)
            elif s.k == "text":
                n += 8
        return n

    def gen_instr(self, scope, in_loop=False):
        rng = self.rng
        r = rng.random()
        self.nbytes += 3
        if r < 0.15:
            return Stmt("instr", scope, mn=rng.choice(IMPLIED), form="none", expr=None)
        if r < 0.30 and rng.random() < self.k["p_branch"]:
            st = Stmt("instr", scope, mn=rng.choice(isa.BRANCHES), form="v", expr=None)
            self.slots.append((st, "expr", "branch", scope))
            return st
        if r < 0.50:
            mn = rng.choice([m for m in NONBRANCH if "imm" in isa.ISA[m]])
            st = Stmt("instr", scope, mn=mn, form="imm", expr=None)
            self.slots.append((st, "expr", "byte", scope))
            return st
        # memory forms: choose a (mnemonic, form) where both the short and the long encoding exist or only one of them
        for _ in range(20):
            mn = rng.choice(NONBRANCH)
            form = rng.choice(["v", "v", "v,x", "v,y", "(v,x)", "(v),y", "(v)"])
            short, long_ = isa.FORMS[form]
            modes = isa.ISA[mn]
            if short in modes or (long_ and long_ in modes):
                st = Stmt("instr", scope, mn=mn, form=form, expr=None)
                only_short = (short in modes) and not (long_ and long_ in modes)
                self.slots.append((st, "expr", "zpaddr" if only_short else "addr", scope))
                return st
        return Stmt("instr", scope, mn="nop", form="none", expr=None)

    def gen_data(self, scope):
        rng = self.rng
        size = rng.choice([".byte", ".byte", ".word", ".word", ".dword"])
        n = rng.randrange(1, 4)
        st = Stmt("data", scope, size=size, exprs=[None] * n)
        for i in range(n):
            self.slots.append((st, ("exprs", i), {".byte": "byte", ".word": "word", ".dword": "word"}[size], scope))
        self.nbytes += n * {".byte": 1, ".word": 2, ".dword": 4}[size]
        return st

    def gen_text(self, scope):
        rng = self.rng
        s = "".join(rng.choice("abcxyz 0123456789@!?") for _ in range(0 if rng.random() < 0.08 else rng.randrange(1, 9)))
        self.nbytes += len(s)
        return Stmt("text", scope, enc=rng.choice([None, None, "ascii", "petscii", "petscreen"]), text=s)

    def gen_macrodef(self, scope):
        rng = self.rng
        # (also names that begin like a mnemonic or a keyword: `inc16(...)` is an invocation, not `inc` with an operand)
        nm = self.unique_name(self.rng.choice(["mac", "mac", "inc16", "sector", "bitmap", "rolled", "truemac", "nopper", "staple"]))
        d = Def(nm, "macro", scope)
        d.root_unique = True
        sc = Scope("macro", scope)
        params = []
        for i in range(rng.randrange(0, 3)):
            params.append(Def("p%d" % i, "param", sc))
        st = Stmt("macrodef", scope, d=d, params=params, bscope=sc, block=None)
        st.block = self.gen_block(sc, 1, self._nstmts(1, 5), in_macro=True)
        if self.prog.has_segments and len(self.prog.segments) > 1 and rng.random() < self.k.get("p_macro_segment", 0.0):
            # a macro that switches the segment without a block: what follows the invocation goes to that segment too
            st.block.append(Stmt("seguse", sc, name=rng.choice(self.prog.segments).name, block=None))
        self.macros.append(st)
        self.prog.features.add("macro")
        return st

    def gen_import(self, scope, fname):
        rng = self.rng
        sc = Scope("import", scope, file=fname)
        body = []
        # an imported file: unique exported labels/consts, some code; refers to its own symbols and root-unique ones
        n = rng.randrange(1, 5)
        exported = []
        for i in range(n):
            if rng.random() < 0.5:
                d = Def(self.unique_name("imp"), "label", sc)
                d.root_unique = True
                exported.append(d)
                body.append(Stmt("label", sc, d=d, block=None, bscope=None))
                body.append(self.gen_instr(sc))
            else:
                d = Def(self.unique_name("ic"), "const", sc)
                d.root_unique = True
                exported.append(d)
                st = Stmt("const", sc, d=d, expr=None)
                self.slots.append((st, "expr", "constval", sc))
                body.append(st)
        body.extend(self.gen_block(sc, 1, rng.randrange(0, 4), in_import=True))
        self.prog.files[fname] = body
        mode = rng.choice(["*", "*as", "specific"])
        ns = None
        names = []
        if mode == "*as":
            ns = self.unique_name("ns")
        elif mode == "specific":
            for d in exported:
                alias = self.unique_name("al") if rng.random() < 0.4 else None
                names.append((d, alias))
        for d in exported:
            if mode == "*":
                self.exports[d] = [d.name]
            elif mode == "*as":
                self.exports[d] = [ns, d.name]
            else:
                alias = dict((x.uid, a) for x, a in names)[d.uid]
                self.exports[d] = [alias or d.name]
        self.prog.exports = self.exports
        st = Stmt("import", scope, file=fname, mode=mode, ns=ns, names=names, bscope=sc, block=None, exported=exported)
        self.prog.features.add("import")
        return st

    # ---- expressions: filled once every definition exists
    def visible_defs(self, site, kinds):
        """Definitions that can be spelled from `site` (forward and backward), with their spelling."""
        out = []
        seen = set()
        # everything in enclosing scopes, and downward through named scopes from each of them
        in_barrier = None
        for anc in site.chain():
            for d in self._defs_below(anc):
                if d.uid in seen or d.kind not in kinds:
                    continue
                seen.add(d.uid)
                if in_barrier is not None and not (d.root_unique and d.scope.kind == "root"):
                    # from inside a macro body / imported file only root-unique names of the importing side are used
                    if d.scope not in in_barrier:
                        continue
                if self._alias_for(site, d) is not None or spell(site, d) is not None:
                    out.append(d)
            if anc.barrier and in_barrier is None:
                in_barrier = set(site.chain()[:site.chain().index(anc) + 1])
                # also scopes nested below the barrier scope
                in_barrier |= set(self._scopes_below(anc))
        # imported symbols are visible through their alias / namespace (not from macro bodies or other imported files)
        if in_barrier is None:
            for d in self.exports:
                if d.uid not in seen and d.kind in kinds:
                    out.append(d)
        return out

    def _scopes_below(self, s):
        out = [s]
        for c in s.named.values():
            out.extend(self._scopes_below(c))
        return out

    def _defs_below(self, s):
        for d in s.defs.values():
            yield d
        for c in s.named.values():
            yield from self._defs_below(c)

    def _alias_for(self, site, d):
        return self.exports.get(d)

    def pick_ref(self, site, kinds, pred=None):
        cands = [d for d in self.visible_defs(site, kinds) if pred is None or pred(d)]
        # variables only after their first definition: they are referenced explicitly by gen_block
        cands = [d for d in cands if d.kind != "var" and d.live]
        if not cands:
            return None
        return self.rng.choice(cands)

    def num(self, v):
        return ("num", v, None)

    def fill_slots(self):
        rng = self.rng
        # constants first (their values must be known to choose sensible operands); values are unique per definition
        for st, attr, kind, site in self.slots:
            if kind == "constval" and rng.random() < self.k.get("p_label_const", 0.0) and not getattr(st.d, "in_if", False):
                # a constant (or a variable that is defined once) whose value is the address of a label, possibly of one that is
                # defined further down: it keeps moving for as long as the label does. It has no value the generator knows.
                lab = self.pick_ref(site, ("label",))
                if lab is not None:
                    st.expr = ("ref", lab, None) if rng.random() < 0.6 else ("bin", rng.choice(["+", "-"]), ("ref", lab, None), self.num(rng.randrange(1, 9)))
                    st.as_var = rng.random() < 0.5
                    continue
            if kind == "constval":
                v = next(self.const_val) * rng.choice([1, 1, 1, 7]) % 60000 + 1
                while v in getattr(self, "_cv", set()):
                    v += 1
                self.__dict__.setdefault("_cv", set()).add(v)
                st.expr = self.num(v)
                st.d.value = v
        for st, attr, kind, site in self.slots:
            if kind == "constval":
                continue
            e = self.gen_expr(kind, site, st)
            if isinstance(attr, tuple):
                getattr(st, attr[0])[attr[1]] = e
            else:
                setattr(st, attr, e)

    def gen_expr(self, kind, site, st):
        rng = self.rng
        if kind == "cond" and rng.random() < self.k.get("p_logic_cond", 0.15):
            # a condition whose left operand already decides it; the right one still names symbols
            base = self.gen_expr("cond-simple", site, st)
            d2 = self.pick_ref(site, ("const", "label"), pred=lambda d: d.live and not getattr(d, "in_if", False) and not any(
                a.defs.get(d.name) not in (None, d) for a in site.chain() + d.scope.chain()) and not any(m.d.name == d.name for m in self.macros))
            other = ("bin", rng.choice([">", "<", "!="]), ("ref", d2, None), self.num(rng.randrange(0, 300))) if d2 is not None else self.num(rng.randrange(0, 2))
            return ("bin", "||" if st.taken else "&&", ("paren", base), ("paren", other))
        if kind in ("cond", "cond-simple"):
            want = st.taken
            r = rng.random()
            # (not a name that is also defined further out: in an early pass the condition would be evaluated with the outer
            # definition, and what the other branch defines then stays in the symbol table - a known finding of C02, kept out
            # of the generated programs so that it cannot mask anything else)
            def unshadowed(d):
                return not getattr(d, "in_if", False) and all(a.defs.get(d.name) in (None, d) for a in site.chain()) and \
                    all(a.defs.get(d.name) in (None, d) for a in d.scope.chain())
            d = self.pick_ref(site, ("const",), pred=unshadowed)
            if d is not None and r < 0.5 and hasattr(d, "value"):
                v = d.value
                true_forms = [("==", v), ("!=", v + 1), (">", v - 1), ("<", v + 1), (">=", v), ("<=", v)]
                false_forms = [("!=", v), ("==", v + 1), (">", v), ("<", v), (">=", v + 1), ("<=", v - 1)]
                op, rhs = rng.choice(true_forms if want else false_forms)
                if rhs >= 0:
                    return ("bin", op, ("ref", d, None), self.num(rhs))
            if r < 0.75:
                return self.num(rng.choice([1, 2, 255]) if want else 0)
            a = rng.randrange(3)
            return ("bin", "==" if want else "!=", self.num(a), self.num(a))
        if kind == "branch":
            # a nearby target: enclosing block start/end or a label of the same scope; far ones make the program invalid
            cands = []
            in_loop = False
            for anc in site.chain():
                if anc.kind == "loop":
                    in_loop = True
                if anc.barrier:
                    break
            if site.kind in ("named", "brace") and (not in_loop or self.k.get("blk_in_loops")) and site.uid in self._block_scopes():
                cands.append(("blk", site))
            labels = [d for d in site.defs.values() if d.kind == "label" and d.live]
            if labels and rng.random() < 0.6:
                return ("ref", rng.choice(labels), None)
            if cands:
                return ("blk", cands[0][1], rng.choice(["-", "+"]))
            if labels:
                return ("ref", rng.choice(labels), None)
            return ("bin", "+", ("pc",), self.num(rng.randrange(2, 20)))
        if kind == "byte":
            r = rng.random()
            d = self.pick_ref(site, ("label", "const", "param", "index"))
            if d is not None and r < 0.55:
                if d.kind in ("index",):
                    return ("bin", "+", ("ref", d, None), self.num(rng.randrange(0, 50)))
                if d.kind == "param":
                    return ("ref", d, rng.choice(["<", ">"]))
                return ("ref", d, rng.choice(["<", ">"]))
            return self.num(rng.randrange(0, 256))
        if kind in ("addr", "word", "zpaddr", "arg"):
            r = rng.random()
            d = self.pick_ref(site, ("label", "const", "param", "index"))
            if kind == "zpaddr":
                if d is not None and r < 0.5:
                    return ("ref", d, "<")
                return self.num(rng.randrange(0, 256))
            if d is not None and r < 0.05 and d.kind in ("label", "const") and kind != "zpaddr":
                # the same name twice in one expression (its value cancels out)
                return ("bin", "+", ("bin", "-", ("ref", d, None), ("ref", d, None)), self.num(rng.choice([0x10, 0xFE, 0x100, 0x0400, 0xD020])))
            if d is not None and r < 0.75:
                if d.kind == "index":
                    return ("bin", "+", self.num(rng.choice([0x10, 0xF8, 0x400])), ("ref", d, None))
                if r < 0.15:
                    return ("bin", rng.choice(["+", "-"]), ("ref", d, None), self.num(rng.randrange(1, 4)))
                return ("ref", d, None)
            if r < 0.85:
                return self.num(rng.choice([0x10, 0x80, 0xFE, 0xFF, 0x100, 0x101, 0x0400, 0xD020, 0xFFFE]))
            if r < 0.9:
                return ("pc",)
            return self.num(rng.randrange(0, 65536))
        raise ValueError(kind)

    def _block_scopes(self):
        if not hasattr(self, "_bs"):
            self._bs = set()
            for s in self.prog.all_stmts():
                if s.k in ("label", "braces", "loop") and getattr(s, "bscope", None) is not None and s.block is not None:
                    self._bs.add(s.bscope.uid)
        return self._bs


DEFAULT_KNOBS = {
    "top_stmts": 14, "max_depth": 3, "max_bytes": 600, "p_segments": 0.35, "max_segments": 3, "p_relocated": 0.35, "p_import": 0.3,
    "p_macro": 0.4, "max_macros": 2, "p_loop": 0.7, "p_if": 0.7, "p_setpc": 0.5, "p_align": 0.6, "p_branch": 0.8,
}


def generate(rng, knobs=None):
    global DEAD_DEFS_INVISIBLE
    DEAD_DEFS_INVISIBLE = bool((knobs or {}).get("dead_defs_invisible", False))
    g = Gen(rng, knobs)
    return g.gen_program()
