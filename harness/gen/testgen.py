"""Generator of `.test` bodies over the modelled instruction subset, with assertion slots whose truth is known."""
from ..oracle import cpu6502

ZP = [0x80, 0x81, 0x82, 0x83]
ABS = [0x0400, 0x0401, 0x0402, 0xFFFE, 0xFFFF]
SNAP = ZP + ABS + [0x84, 0x0403, 0x0000]      # addresses whose contents the assertion conditions may look at


def gen_ops(rng, n, avoid_x=False, avoid_y=False):
    out = []
    for _ in range(n):
        r = rng.random()
        if r < 0.2:
            out.append(("ins", "lda", "imm", rng.randrange(256)))
        elif r < 0.28 and not avoid_x:
            out.append(("ins", "ldx", "imm", rng.randrange(256)))
        elif r < 0.34 and not avoid_y:
            out.append(("ins", "ldy", "imm", rng.randrange(256)))
        elif r < 0.44:
            out.append(("ins", rng.choice(["sta", "sta", "stx", "sty"]), rng.choice(["zp", "abs"]), None))
        elif r < 0.52:
            out.append(("ins", "lda", rng.choice(["zp", "abs"]), None))
        elif r < 0.6:
            mn = rng.choice(["tax", "tay", "txa", "tya", "inx", "iny", "dex", "dey"])
            if (avoid_x and mn in ("tax", "inx", "dex")) or (avoid_y and mn in ("tay", "iny", "dey")):
                mn = "txa" if not avoid_x else "nop"
            out.append(("ins", mn, "imp", None))
        elif r < 0.68:
            out.append(("ins", rng.choice(["and", "ora", "eor"]), "imm", rng.randrange(256)))
        elif r < 0.8:
            out.append(("ins", rng.choice(["clc", "sec"]), "imp", None))
            out.append(("ins", rng.choice(["adc", "sbc"]), "imm", rng.randrange(256)))
        elif r < 0.88:
            out.append(("ins", rng.choice(["cmp", "cpx", "cpy"]), "imm", rng.randrange(256)))
        elif r < 0.94:
            out.append(("ins", rng.choice(["inc", "dec"]), "zp", None))
        else:
            out.append(("ins", "pha", "imp", None))
            out.append(("ins", "lda", "imm", rng.randrange(256)))
            out.append(("ins", "pla", "imp", None))
    fixed = []
    for it in out:
        if it[3] is None and it[2] in ("zp", "abs"):
            fixed.append(("ins", it[1], it[2], rng.choice(ZP if it[2] == "zp" else ABS)))
        else:
            fixed.append(it)
    return fixed


def gen_body(rng, tid):
    """Returns (body, nslots). Layout: init; blocks (straight code / counted loops / calls); brk; subroutines."""
    body = [("ins", "lda", "imm", rng.randrange(256)), ("ins", "ldx", "imm", rng.randrange(256)), ("ins", "ldy", "imm", rng.randrange(256)),
            ("ins", rng.choice(["clc", "sec"]), "imp", None)]
    slots = 0
    nsubs = rng.randrange(0, 3)
    subs = ["t%d_sub%d" % (tid, i) for i in range(nsubs)]
    labels = 0

    def maybe_assert(p=0.35):
        nonlocal slots
        if rng.random() < p:
            body.append(("assert", slots))
            slots += 1

    for _ in range(rng.randrange(2, 6)):
        r = rng.random()
        if r < 0.4:
            body.extend(gen_ops(rng, rng.randrange(1, 5)))
            maybe_assert()
        elif r < 0.75:
            lab = "t%d_l%d" % (tid, labels)
            labels += 1
            body.append(("ins", "ldx", "imm", rng.randrange(1, 5)))
            body.append(("label", lab))
            inner = gen_ops(rng, rng.randrange(1, 4), avoid_x=True)
            body.extend(inner)
            maybe_assert(0.6)
            if subs and rng.random() < 0.4:
                body.append(("ins", "jsr", "jsr", rng.choice(subs)))
            body.append(("ins", "dex", "imp", None))
            body.append(("ins", "bne", "rel", lab))
            maybe_assert(0.3)
        elif subs:
            body.append(("ins", "jsr", "jsr", rng.choice(subs)))
            maybe_assert()
        else:
            # forward conditional branch over a few instructions
            lab = "t%d_l%d" % (tid, labels)
            labels += 1
            body.append(("ins", rng.choice(["cmp", "cpx"]), "imm", rng.randrange(256)))
            body.append(("ins", rng.choice(["beq", "bne", "bcc", "bcs", "bmi", "bpl"]), "rel", lab))
            body.extend(gen_ops(rng, rng.randrange(1, 3)))
            maybe_assert(0.5)
            # never an assertion directly in front of a join point: it belongs to the address of the next byte, i.e. to the
            # label, and would also fire when the branch is taken (known finding, checked by a dedicated witness)
            body.extend(gen_ops(rng, 1))
            body.append(("label", lab))
    maybe_assert(0.5)
    body.append(("ins", "brk", "imp", None))
    for s in subs:
        body.append(("label", s))
        body.extend(gen_ops(rng, rng.randrange(1, 4), avoid_x=True))
        maybe_assert(0.6)
        body.append(("ins", "rts", "imp", None))
    return body, slots


def observe_slots(body):
    """Dry run with all assertions true: the machine state at every visit of every slot."""
    visits = {}

    def on_assert(m, slot):
        visits.setdefault(slot, []).append({"a": m.a, "x": m.x, "y": m.y, "z": m.z, "c": m.c, "n": m.n, "v": m.v,
                                            "mem": {a: m.rd(a) for a in SNAP}})
        return True
    m = cpu6502.Machine(body, on_assert)
    end = m.run()
    return end, visits


def truth(cond, st):
    k = cond[0]
    if k == "reg":
        v = st[cond[1]]
        return {"==": v == cond[3], "!=": v != cond[3], "<": v < cond[3], ">=": v >= cond[3]}[cond[2]]
    if k == "ram":
        v = st["mem"][cond[1]]
        return {"==": v == cond[3], "!=": v != cond[3]}[cond[2]]
    if k == "ram16":
        v = st["mem"][cond[1]] + 256 * st["mem"][(cond[1] + 1) & 0xFFFF]      # the word at $ffff continues at $0000
        return {"==": v == cond[3], "!=": v != cond[3]}[cond[2]]
    if k == "flag":
        v = st[cond[1]]
        return v if cond[2] else not v
    if k == "and":
        return truth(cond[1], st) and truth(cond[2], st)
    if k == "or":
        return truth(cond[1], st) or truth(cond[2], st)
    if k == "const":
        return cond[1]
    if k == "uneval":
        return False        # an assertion that cannot be evaluated fails the test
    raise ValueError(k)


# assertion expressions that assemble but cannot be evaluated when they are reached
UNEVALUABLE = ["nosuchfn_zz(1) == 0", "ram($2000, 2) == 0", '"a" < "b"', "nosuch_zz == 1", "ram() == 0", "ram16($80, 1) == 0", "cpu.nosuch_zz == 1",
               "ram($80) == nosuch_zz", "cpu.a == 1 || nosuchfn_zz(2)"]

FLAGNAMES = {"z": "zero", "c": "carry", "n": "negative", "v": "overflow"}


def render_cond(cond):
    k = cond[0]
    if k == "reg":
        return "cpu.%s %s %d" % (cond[1], cond[2], cond[3])
    if k == "ram":
        return "ram($%04x) %s %d" % (cond[1], cond[2], cond[3])
    if k == "ram16":
        return "ram16($%04x) %s %d" % (cond[1], cond[2], cond[3])
    if k == "flag":
        return ("" if cond[2] else "!") + "cpu.flags." + FLAGNAMES[cond[1]]
    if k == "and":
        return "(%s) && (%s)" % (render_cond(cond[1]), render_cond(cond[2]))
    if k == "or":
        return "(%s) || (%s)" % (render_cond(cond[1]), render_cond(cond[2]))
    if k == "const":
        return "1 == 1" if cond[1] else "1 == 2"
    if k == "uneval":
        return cond[1]
    raise ValueError(k)


def atom(rng, st, want):
    """A condition with the wanted truth value in state st."""
    r = rng.random()
    if r < 0.45:
        reg = rng.choice(["a", "x", "y"])
        v = st[reg]
        if want:
            return rng.choice([("reg", reg, "==", v), ("reg", reg, "!=", (v + 1) & 255), ("reg", reg, ">=", v), ("reg", reg, "<", v + 1)])
        return rng.choice([("reg", reg, "!=", v), ("reg", reg, "==", (v + 1) & 255), ("reg", reg, "<", v), ("reg", reg, ">=", v + 1)])
    if r < 0.65:
        a = rng.choice(ZP + ABS)
        v = st["mem"][a]
        return ("ram", a, "==" if want else "!=", v)
    if r < 0.75:
        a = rng.choice([0x80, 0x82, 0x0400, 0xFFFE, 0xFFFF])
        v = st["mem"][a] + 256 * st["mem"][(a + 1) & 0xFFFF]
        return ("ram16", a, "==" if want else "!=", v)
    f = rng.choice(["z", "c", "n", "v"])
    return ("flag", f, st[f] == want)


def choose_conditions(rng, visits, nslots, p_false=0.4):
    """For every slot a condition; some are false on a visit (possibly only on a later one)."""
    conds = {}
    for s in range(nslots):
        vs = visits.get(s)
        if not vs:
            conds[s] = ("const", rng.random() < 0.7)      # never reached: its truth does not matter
            continue
        if rng.random() > p_false:
            # true on every visit: a conjunction/disjunction of atoms true everywhere is hard in general; use the last-visit-agnostic trick:
            # pick an atom true in all visits if there is one, else a tautology
            for _ in range(12):
                c = atom(rng, vs[0], True)
                if all(truth(c, v) for v in vs):
                    break
            else:
                c = ("const", True)
            if rng.random() < 0.3:
                c = rng.choice([("and", c, ("const", True)), ("or", c, ("const", False)), ("or", ("const", False), c)])
            conds[s] = c
        else:
            if rng.random() < 0.12:
                conds[s] = ("uneval", rng.choice(UNEVALUABLE))   # fails on the first visit
                continue
            k = rng.randrange(len(vs))                          # first visit on which it shall be false
            for _ in range(20):
                c = atom(rng, vs[k], False)
                if all(truth(c, v) for v in vs[:k]):
                    break
            else:
                c = ("const", False)
            conds[s] = c
    return conds


def expected_outcome(body, conds):
    state = {}

    def on_assert(m, slot):
        st = {"a": m.a, "x": m.x, "y": m.y, "z": m.z, "c": m.c, "n": m.n, "v": m.v, "mem": {a: m.rd(a) for a in SNAP}}
        state["visits"] = state.get("visits", 0) + 1
        state.setdefault("per_slot", {}).setdefault(slot, 0)
        state["per_slot"][slot] += 1
        return truth(conds[slot], st)
    m = cpu6502.Machine(body, on_assert)
    end = m.run()
    return end, state, m


def render_body(body, conds, messages, indent="    "):
    """Returns (lines, {slot: line index within lines})"""
    lines, where = [], {}
    for it in body:
        if it[0] == "label":
            lines.append(indent + it[1] + ":")
        elif it[0] == "assert":
            where[it[1]] = len(lines)
            msg = messages.get(it[1])
            lines.append(indent + ".assert " + render_cond(conds[it[1]]) + (' "%s"' % msg if msg else ""))
        else:
            _, mn, mode, op = it
            if mode == "imp":
                lines.append(indent + mn)
            elif mode == "imm":
                lines.append(indent + "%s #%d" % (mn, op))
            elif mode == "zp":
                lines.append(indent + "%s $%02x" % (mn, op))
            elif mode == "abs":
                lines.append(indent + "%s $%04x" % (mn, op))
            else:
                lines.append(indent + "%s %s" % (mn, op))
    return lines, where
