"""Renderers: abstract program -> source text, recording where every relevant token ended up.

The token stream consists of ("tok", text, begin_marks, end_marks, cls) and ("gap", kind) items.
Gap kinds (what the grammar permits at that boundary):
  stmt  - between statements: a newline is required; blank lines, comment lines and indentation may be added
  sp    - at least one blank (or block comment) on the same line
  opt   - optional same-line trivia (may be empty)
  mopt  - optional trivia that may contain newlines (before `{`, `}`, `else`, `from`)
  none  - nothing may be inserted
"""
from . import prog as P
from ..oracle import exprval as ev


class Layout:
    """Plain layout: one statement per line, single blanks. Subclasses perturb."""

    def __init__(self, rng=None, crlf=False):
        self.rng = rng
        self.crlf = crlf
        self.nl = "\r\n" if crlf else "\n"

    def gap(self, kind, depth, nxt):
        if kind == "stmt":
            return self.nl + "    " * depth
        if kind == "sp":
            return " "
        if kind == "opt":
            return " " if nxt.get("want_space") else ""
        if kind == "mopt":
            return " " if nxt.get("want_space", True) else ""
        return ""

    def case(self, text, cls):
        return text

    def number(self, v, hint):
        if hint:
            return hint
        if v > 255 or (v > 9 and v % 16 == 0):
            return "$%x" % v
        return "%d" % v


class Hostile(Layout):
    """Random trivia at every boundary, as far as the grammar permits; random letter case for case-insensitive words."""

    COMMENT_TEXTS = ["c", "lda #1", "x: {", "}", ".byte 1, 2", "\"quote", "* = $1000", "a /* b", "é€", "", "  ", ".if 0 {", "else",
                     "***", "** doc **", "=*", "/", "//", "///", "x //* old */ y", "*", "a */* b */ c /",
                     "todo:", "two things left to do:", "loop:", "x: {", "see below :", ":"]

    def __init__(self, rng, crlf=None, comments=True, case=True, multiline_block=True, else_comments=True, same_line=0.1):
        super().__init__(rng, rng.random() < 0.3 if crlf is None else crlf)
        self.same_line = same_line
        self.comments = comments
        self.do_case = case
        self.multiline_block = multiline_block
        self.else_comments = else_comments
        self.stats = {}
        self.comment_meta = {}    # id -> (gap kind, statement kind, what follows)
        self._cid = 0
        self._ctx = ("?", "?", "?")
        self._after_else = False

    def _note(self, boundary, trivia):
        self.stats[(boundary, trivia)] = self.stats.get((boundary, trivia), 0) + 1

    def _new_id(self):
        self._cid += 1
        self.comment_meta[self._cid] = self._ctx
        return "c%dz " % self._cid

    @staticmethod
    def _scan_ok(body):
        """Does "/*" + body + "*/" scan (left to right, nesting counted) as exactly one block comment?"""
        text = "/*" + body + "*/"
        depth, i = 0, 0
        while i < len(text):
            two = text[i:i + 2]
            if two == "/*":
                depth += 1
                i += 2
            elif two == "*/":
                depth -= 1
                i += 2
                if depth == 0:
                    return i == len(text)
            else:
                i += 1
        return False

    def _block_comment(self, multiline_ok):
        rng = self.rng
        t = self._new_id() + rng.choice(self.COMMENT_TEXTS)
        if rng.random() < 0.25:
            t = t + " /* " + rng.choice(self.COMMENT_TEXTS) + " */ "
        if multiline_ok and self.multiline_block and rng.random() < 0.3:
            t = t + self.nl + " " + rng.choice(self.COMMENT_TEXTS)
        if not self._scan_ok(t):
            # defuse everything that would open or close a comment in the wrong place
            t = t.replace("/*", "/ *").replace("*/", "* /")
            if t.endswith("/"):
                t += " "
            assert self._scan_ok(t), t
        return "/*" + t + "*/"

    def _line_comment(self):
        return "//" + self._new_id() + self.rng.choice(self.COMMENT_TEXTS).replace("\n", " ")

    def _blanks(self, lo=0):
        rng = self.rng
        return "".join(rng.choice([" ", " ", "\t", "  "]) for _ in range(rng.randrange(lo, 3)))

    def gap(self, kind, depth, nxt):
        rng = self.rng
        cls, text = nxt.get("next_cls"), nxt.get("next_text")
        if cls is None:
            what = "eof"
        elif cls in ("punct", "op"):
            what = text
        elif cls == "kw":
            what = str(text).lower()
        else:
            what = {"dir": "directive", "mn": "mnemonic"}.get(cls, cls)
        self._ctx = (kind, nxt.get("stmt") or "?", what)
        if kind == "none":
            return ""
        if kind == "sp" and nxt.get("stmt") != "import" and cls in ("punct", "op", "str") and str(text)[:1] in tuple('#$%("<>-!*') and rng.random() < 0.12:
            # a blank that the grammar does not need (`lda#1`, `.text petscii"x"`, `.if(1)`): nothing, or only a comment
            out = ""
            if self.comments and rng.random() < 0.3:
                out = self._block_comment(False)
                self._note(kind, "comment-instead-of-blank")
            else:
                self._note(kind, "no-blank")
            return out
        if kind in ("sp", "opt"):
            out = self._blanks(1 if kind == "sp" else 0)
            if not out and kind == "opt" and nxt.get("want_space") and rng.random() < 0.7:
                out = " "
            if self.comments and rng.random() < 0.12:
                # (a block comment inside a statement may span lines: the statement then continues on the next line)
                out += self._block_comment(rng.random() < 0.25) + self._blanks(0)
                self._note(kind, "block-comment")
            if kind == "sp" and not out:
                out = " "
            self._note(kind, "blanks" if out else "empty")
            return out
        if kind == "mopt":
            out = self._blanks(0)
            r = rng.random()
            if not self.else_comments and (what == "else" or self._after_else):
                self._after_else = what == "else"
                return out + (self.nl if r < 0.3 else "") or " "
            self._after_else = what == "else"
            if r < 0.3:
                out += self.nl + self._blanks(0)
                self._note(kind, "newline")
            if self.comments and rng.random() < 0.15:
                out += self._line_comment() + self.nl + self._blanks(0)
                self._note(kind, "line-comment")
            if self.comments and rng.random() < 0.12:
                out += self._block_comment(True) + self._blanks(0)
                self._note(kind, "block-comment")
            if not out and nxt.get("want_space", True):
                out = " "
            return out
        # stmt
        if self.same_line and str(nxt.get("prev_text")) == "}" and rng.random() < 0.06 and \
                (cls in ("mn", "dir") or (cls == "id" and nxt.get("stmt") == "label")):
            # a statement glued to the closing brace in front of it (`}nop`, `}next: rts`)
            self._note(kind, "glued-to-closing-brace")
            return ""
        if self.same_line and str(nxt.get("prev_text")) == "{" and rng.random() < 0.05 and \
                (cls in ("mn", "dir") or (cls == "id" and nxt.get("stmt") in ("label", "macrocall"))):
            # the first statement of a block glued to the opening brace (`{nop`, `{emit()`, `{x: nop`)
            self._note(kind, "glued-to-opening-brace")
            return ""
        if self.same_line and rng.random() < self.same_line and self._joinable(nxt):
            # several statements on one line / one-line blocks: only blanks (and a same-line block comment) in between
            out = self._blanks(1)
            if self.comments and self.else_comments and rng.random() < 0.15:
                out += self._block_comment(False) + self._blanks(1)
                self._note(kind, "same-line-block-comment")
            self._note(kind, "same-line")
            return out
        out = self._blanks(0)
        if self.comments and rng.random() < 0.15:
            out += self._line_comment()
            self._note(kind, "trailing-line-comment")
        out += self.nl
        for _ in range(rng.choice([0, 0, 0, 1, 2])):
            r = rng.random()
            if r < 0.4:
                out += self._blanks(0) + self.nl
                self._note(kind, "blank-line")
            elif self.comments and r < 0.7:
                out += self._blanks(0) + self._line_comment() + self.nl
                self._note(kind, "comment-line")
            elif self.comments and self.else_comments:
                out += self._blanks(0) + self._block_comment(True) + self._blanks(0) + self.nl
                self._note(kind, "block-comment-line")
        out += rng.choice(["", " ", "  ", "\t", "    " * depth])
        if self.comments and self.else_comments and rng.random() < 0.08:
            out += self._block_comment(False) + " "
            self._note(kind, "leading-block-comment")
        return out

    @staticmethod
    def _joinable(nxt):
        """May the statement gap be rendered without a newline?  Conservative: the next statement starts with a mnemonic or
        a directive (or is the closing brace), and the previous token cannot swallow it (an accumulator-or-operand shift, the
        anonymous -/+ symbols and `*` could continue as an expression)."""
        ncls, ntext = nxt.get("next_cls"), nxt.get("next_text")
        pcls, ptext = nxt.get("prev_cls"), str(nxt.get("prev_text") or "")
        if pcls is None or ncls is None:
            return False
        if not (ncls in ("mn", "dir") or ntext == "}"):
            return False
        if pcls == "mn" and ptext.lower() in ("asl", "lsr", "rol", "ror"):
            return False
        if pcls == "raw" or ncls == "raw":
            return False
        if ptext in ("-", "+", "*") or ptext.endswith(("-", "+", "*")):
            return False
        return True

    def case(self, text, cls):
        if not self.do_case or cls not in ("mn", "dir", "reg", "kw", "hex", "bool"):
            return text
        rng = self.rng
        r = rng.random()
        if r < 0.35:
            return text
        if r < 0.6:
            return text.upper()
        return "".join(c.upper() if rng.random() < 0.5 else c.lower() for c in text)

    def number(self, v, hint):
        rng = self.rng
        if hint in ("true", "false"):
            return self.case(hint, "bool") if rng.random() < 0.7 else str(v)
        if v in (0, 1) and rng.random() < 0.06:
            # the keyword operands true/false are numbers; any letter case
            return self.case("true" if v else "false", "bool")
        if hint and rng.random() < 0.5:
            return hint
        r = rng.random()
        z = "0" * rng.choice([0, 0, 1, 2])
        if r < 0.4:
            return "$" + z + self.case("%x" % v, "hex")
        if r < 0.5 and v < 65536:
            return "%" + z + bin(v)[2:]
        return z + "%d" % v if not (z and v == 0) else "0"


class Renderer:
    def __init__(self, prog, layout=None):
        self.prog = prog
        self.layout = layout or Layout()
        self.items = []
        self.depth = 0
        self.file = None
        self.stmt_stack = []
        self.cur_stmt = None
        self.occurrences = []     # (file, off0, off1, Def, spelled component index, ncomponents)

    # ---- token helpers
    def tok(self, text, cls="punct", begin=(), end=()):
        self.items.append(["tok", text, list(begin), list(end), cls, self.depth, self.stmt_stack[-1] if self.stmt_stack else None])

    def gap(self, kind, **kw):
        self.items.append(["gap", kind, kw, self.depth])

    # ---- expressions
    def expr(self, t, site, begin=(), end=()):
        """Emits tokens for expression tree t; begin/end marks are attached to its first/last token."""
        start = len(self.items)
        self._expr(t, site)
        toks = [it for it in self.items[start:] if it[0] == "tok"]
        toks[0][2].extend(begin)
        toks[-1][3].extend(end)

    def _needs_parens(self, parent_op, child, side):
        return ev.needs_parens(parent_op, child, side)

    def _expr(self, t, site):
        k = t[0]
        if k == "num":
            self.tok(("num", t[1], t[2]), "num")
        elif k == "pc":
            self.tok("*", "punct")
        elif k == "paren":
            self.tok("(")
            self.gap("opt")
            self._expr(t[1], site)
            self.gap("opt")
            self.tok(")")
        elif k == "ref":
            d, mod = t[1], t[2]
            path = self.prog.exports.get(d) if getattr(self.prog, "exports", None) and d in self.prog.exports and not self._inside(site, d) else None
            if path is None:
                path = P.spell(site, d)
            if path is None:
                raise SpellError("cannot spell %r from %r" % (d, site))
            if mod:
                self.tok(mod, "punct")
                self.gap("none")
            self._path(path, d, site if not (getattr(self.prog, "exports", None) and d in self.prog.exports and not self._inside(site, d)) else None)
        elif k == "blk":
            self.tok(t[2], "punct", begin=[("occ", (t[1], t[2]))])
        elif k == "un":
            self.tok(t[1][0], "punct")
            self.gap("none")
            if len(t[1]) > 1:
                self.tok(t[1][1], "punct")
                self.gap("none")
            c = t[2]
            if c[0] in ("bin", "un") or (c[0] == "ref" and c[2]):
                self.tok("(")
                self._expr(c, site)
                self.tok(")")
            else:
                self._expr(c, site)
        elif k == "bin":
            for side, c in (("l", t[2]), ("r", t[3])):
                if side == "r":
                    self.gap("opt", want_space=True)
                    self.tok(t[1], "op")
                    self.gap("opt", want_space=True)
                if self._needs_parens(t[1], c, side):
                    self.tok("(")
                    self.gap("opt")
                    self._expr(c, site)
                    self.gap("opt")
                    self.tok(")")
                else:
                    self._expr(c, site)
        elif k == "str":
            self.tok('"' + "".join(p[1] if p[0] == "lit" else "{" + p[1] + "}" for p in t[1]) + '"', "str")
        else:
            raise ValueError(k)

    def _inside(self, site, d):
        return d.scope in site.chain()

    def _path(self, path, d, site=None):
        n = len(path)
        # what each intermediate component denotes: the label that owns the named scope on the way down to d
        targets = [None] * n
        targets[-1] = d
        if site is not None and n > 1:
            anc = site
            k = 0
            while k < n and path[k] == "super":
                anc = anc.parent
                k += 1
            if k == 0:
                a = site
                while a is not None and P._down(a, path) is not d:
                    a = a.parent
                anc = a
            if anc is not None:
                for j in range(k, n - 1):
                    t = P._down(anc, path[k:j + 1])
                    targets[j] = t if isinstance(t, P.Def) else None
        for i, comp in enumerate(path):
            if i:
                self.tok(".", "punct")
            cls = "kw" if comp == "super" else "id"
            key = (d, i, n, targets[i], self.cur_stmt, site)
            self.tok(comp, cls, begin=[("occb", key)], end=[("occe", key)])

    # ---- statements
    def block(self, body, st):
        self.gap("mopt")
        self.tok("{", begin=[("mark", (st, "lbrace"))], end=[("marke", (st, "lbrace"))])
        self.depth += 1
        for s in body:
            self.gap("stmt")
            self.stmt(s)
        self.depth -= 1
        self.gap("stmt" if body else "mopt", want_space=False)
        self.tok("}", begin=[("mark", (st, "rbrace"))], end=[("marke", (st, "rbrace"))])

    def defname(self, d):
        self.tok(d.name, "id", begin=[("defb", d)], end=[("defe", d)])

    def stmt(self, s):
        self.stmt_stack.append(s.k)
        try:
            self._stmt(s)
        finally:
            self.stmt_stack.pop()

    def _stmt(self, s):
        k = s.k
        outer_stmt = getattr(self, "cur_stmt", None)
        self.cur_stmt = s
        try:
            self._stmt2(s)
        finally:
            self.cur_stmt = outer_stmt

    def _stmt2(self, s):
        k = s.k
        first = len(self.items)
        if k == "instr":
            self.tok(s.mn, "mn", begin=[("mark", (s, "mn")), ("mark", (s, "full"))], end=[("marke", (s, "mn"))])
            if s.form != "none":
                self.gap("sp")
                f = s.form
                if f == "imm":
                    self.tok("#")
                    self.gap("opt")
                elif f.startswith("("):
                    self.tok("(")
                    self.gap("opt")
                self.expr(s.expr, s.scope, begin=[("mark", (s, "expr"))], end=[("marke", (s, "expr")), ("marke", (s, "full"))])
                if f in ("v,x", "v,y"):
                    self.gap("opt")
                    self.tok(",")
                    self.gap("opt")
                    self.tok(f[-1], "reg")
                elif f == "(v,x)":
                    self.gap("opt")
                    self.tok(",")
                    self.gap("opt")
                    self.tok("x", "reg")
                    self.gap("opt")
                    self.tok(")")
                elif f == "(v),y":
                    self.gap("opt")
                    self.tok(")")
                    self.gap("opt")
                    self.tok(",")
                    self.gap("opt")
                    self.tok("y", "reg")
                elif f == "(v)":
                    self.gap("opt")
                    self.tok(")")
            else:
                self.items[-1][3].append(("marke", (s, "full")))
        elif k == "data":
            self.tok(s.size, "dir")
            for i, e in enumerate(s.exprs):
                if i:
                    self.gap("opt")
                    self.tok(",")
                    self.gap("opt", want_space=True)
                else:
                    self.gap("sp")
                self.expr(e, s.scope, begin=[("mark", (s, "expr%d" % i))], end=[("marke", (s, "expr%d" % i))])
        elif k == "text":
            self.tok(".text", "dir")
            self.gap("sp")
            if s.enc:
                self.tok(s.enc, "kw")
                self.gap("sp")
            self.tok('"' + s.text + '"', "str", begin=[("mark", (s, "expr"))], end=[("marke", (s, "expr"))])
        elif k == "label":
            self.defname(s.d)
            self.gap("none")
            self.tok(":")
            if s.block is not None:
                self.block(s.block, s)
        elif k == "braces":
            self.tok("{", begin=[("mark", (s, "lbrace"))], end=[("marke", (s, "lbrace"))])
            self.depth += 1
            for sub in s.block:
                self.gap("stmt")
                self.stmt(sub)
            self.depth -= 1
            self.gap("stmt" if s.block else "mopt", want_space=False)
            self.tok("}", begin=[("mark", (s, "rbrace"))], end=[("marke", (s, "rbrace"))])
        elif k in ("const", "var"):
            self.tok(".var" if getattr(s, "as_var", False) else "." + k, "dir")
            self.gap("sp")
            self.defname(s.d)
            self.gap("opt", want_space=True)
            self.tok("=")
            self.gap("opt", want_space=True)
            self.expr(s.expr, s.scope)
        elif k == "setpc":
            self.tok("*")
            self.gap("opt", want_space=True)
            self.tok("=")
            self.gap("opt", want_space=True)
            self.expr(("bin", "+" if s.delta >= 0 else "-", ("pc",), ("num", abs(s.delta), None)), s.scope)
        elif k == "testraw":
            self.tok(".test", "dir")
            self.gap("sp")
            self.tok('"%s"' % s.name, "str")
            self.gap("opt", want_space=True)
            self.tok("{")
            self.depth += 1
            for it in s.items:
                self.gap("stmt")
                if it[0] == "ins":
                    self.tok(it[1], "mn")
                    if it[1] in ("lda", "ldx", "ldy"):
                        self.gap("sp")
                        self.tok("#")
                        self.gap("none")
                        self.tok(("num", 7, None), "num")
                    elif it[1] == "sta":
                        self.gap("sp")
                        self.tok(("num", 0x80, None), "num")
                elif it[0] == "assert":
                    self.tok(".assert", "dir")
                    self.gap("sp")
                    form = it[1]
                    if form == 0:
                        toks = [("cpu.a", "id"), ("==", "op"), (("num", 7, None), "num")]
                    elif form == 1:
                        toks = [("ram", "id"), ("(", "punct"), (("num", 0x80, None), "num"), (")", "punct"), ("!=", "op"), (("num", 1, None), "num")]
                    elif form == 2:
                        toks = [("cpu.flags.zero", "id")]
                    else:
                        toks = [("*", "op"), (">=", "op"), (("num", 0, None), "num")]
                    for ti, (t, c) in enumerate(toks):
                        if ti:
                            self.gap("none" if t in ("(", ")") or toks[ti - 1][0] == "(" else "opt", want_space=True)
                        self.tok(t, c)
                    if it[2] is not None:
                        self.gap("sp")
                        self.tok('"%s"' % it[2], "str")
                else:
                    self.tok(".trace", "dir")
                    if it[1]:
                        self.gap("opt", want_space=True)
                        self.tok("(")
                        self.gap("opt", want_space=False)
                        self.tok("cpu.a", "id")
                        if it[1] == 2:
                            self.gap("opt", want_space=False)
                            self.tok(",")
                            self.gap("opt", want_space=True)
                            self.tok("cpu.x", "id")
                        self.gap("opt", want_space=False)
                        self.tok(")")
            self.depth -= 1
            self.gap("stmt" if s.items else "mopt", want_space=False)
            self.tok("}")
        elif k == "align":
            self.tok(".align", "dir")
            self.gap("sp")
            self.expr(("num", s.n, "%d" % s.n), s.scope, begin=[("mark", (s, "expr"))], end=[("marke", (s, "expr"))])
        elif k == "segdef":
            self.tok(".define", "dir")
            self.gap("sp")
            self.tok("segment", "id")
            self.gap("mopt")
            self.tok("{")
            self.depth += 1
            opts = [("name", ("str", (("lit", s.name),))), ("start", ("num", s.start, None))]
            if s.pc is not None:
                opts.append(("pc", ("ref", s.pc_def, None) if getattr(s, "pc_def", None) is not None else ("num", s.pc, None)))
            if not s.write:
                opts.append(("write", ("num", 0, "false")))
            if s.bank:
                opts.append(("bank", ("str", (("lit", s.bank),))))
            for key, val in opts:
                self.gap("stmt")
                self.tok(key, "id")
                self.gap("opt", want_space=True)
                self.tok("=")
                # (the value of a configuration pair may stand on a later line)
                self.gap("mopt", want_space=True)
                self.expr(val, s.scope)
            self.depth -= 1
            self.gap("stmt")
            self.tok("}")
        elif k == "seguse":
            self.tok(".segment", "dir")
            self.gap("sp")
            self.tok('"' + s.name + '"', "str")
            if s.block is not None:
                self.block(s.block, s)
        elif k == "loop":
            self.tok(".loop", "dir")
            self.gap("sp")
            self.expr(("num", s.count, None), s.scope, begin=[("mark", (s, "expr"))], end=[("marke", (s, "expr"))])
            self.block(s.block, s)
        elif k == "if":
            self.tok(".if", "dir")
            self.gap("sp")
            self.expr(s.cond, s.scope)
            self.block(s.then, s)
            if s.else_ is not None:
                self.gap("mopt")
                self.tok("else", "kw")
                saved = dict(s.marks)
                self.block(s.else_, ElseMarks(s))
        elif k == "macrodef":
            self.tok(".macro", "dir")
            self.gap("sp")
            self.defname(s.d)
            self.gap("opt")
            self.tok("(")
            for i, p in enumerate(s.params):
                if i:
                    self.gap("opt")
                    self.tok(",")
                self.gap("opt", want_space=bool(i))
                self.defname(p)
            self.gap("opt")
            self.tok(")")
            self.block(s.block, s)
        elif k == "macrocall":
            self.tok(s.m.d.name, "id", begin=[("mark", (s, "name")), ("occb", (s.m.d, 0, 1, s.m.d, s, s.scope))], end=[("marke", (s, "name")), ("occe", (s.m.d, 0, 1, s.m.d, s, s.scope))])
            self.gap("opt")
            self.tok("(")
            for i, a in enumerate(s.args):
                if i:
                    self.gap("opt")
                    self.tok(",")
                self.gap("opt", want_space=bool(i))
                self.expr(a, s.scope)
            self.gap("opt")
            self.tok(")")
        elif k == "import":
            self.tok(".import", "dir")
            self.gap("sp")
            if s.mode in ("*", "*as"):
                self.tok("*")
                if s.mode == "*as":
                    self.gap("sp")
                    self.tok("as", "kw")
                    self.gap("sp")
                    self.tok(s.ns, "id")
            else:
                for i, (d, alias) in enumerate(s.names):
                    if i:
                        self.gap("opt")
                        self.tok(",")
                        self.gap("opt", want_space=True)
                    self.tok(d.name, "id", begin=[("occb", (d, 0, 1, d, s, s.scope))], end=[("occe", (d, 0, 1, d, s, s.scope))])
                    if alias:
                        self.gap("sp")
                        self.tok("as", "kw")
                        self.gap("sp")
                        self.tok(alias, "id", begin=[("aliasb", (d, alias))], end=[("aliase", (d, alias))])
            self.gap("mopt")
            self.tok("from", "kw")
            self.gap("sp")
            self.tok('"' + s.file + '"', "str")
            if s.block is not None:
                self.block(s.block, s)
        elif k == "raw":
            self.tok(s.text, "raw")
        else:
            raise ValueError(k)
        self.items[first][2].append(("mark", (s, "stmt")))
        self.items[-1][3].append(("marke", (s, "stmt")))

    # ---- files
    def render_file(self, fname):
        self.items = []
        self.file = fname
        self.depth = 0
        body = self.prog.files[fname]
        for i, s in enumerate(body):
            if i:
                self.gap("stmt")
            self.stmt(s)
        return self.join()

    def join(self):
        lay = self.layout
        out = []
        off = 0
        pending = {}
        marks = []
        items = self.items
        for i, it in enumerate(items):
            if it[0] == "gap":
                nxt = dict(it[2])
                nt = next((x for x in items[i + 1:] if x[0] == "tok"), None)
                if nt is not None:
                    t = nt[1]
                    nxt["next_cls"] = nt[4]
                    nxt["next_text"] = t if isinstance(t, str) else "<num>"
                    nxt["stmt"] = nt[6]
                pt = next((x for x in reversed(items[:i]) if x[0] == "tok"), None)
                if pt is not None:
                    nxt["prev_cls"] = pt[4]
                    nxt["prev_text"] = pt[1] if isinstance(pt[1], str) else "<num>"
                text = lay.gap(it[1], it[3], nxt)
                out.append(text)
                off += len(text.encode("utf8"))
                continue
            _, text, begin, end, cls, depth, _sk = it
            if isinstance(text, tuple):
                text = lay.number(text[1], text[2])
            else:
                text = lay.case(text, cls)
            for m in begin:
                marks.append((m[0], m[1], off, "b"))
            out.append(text)
            off += len(text.encode("utf8"))
            for m in end:
                marks.append((m[0], m[1], off, "e"))
        text = "".join(out)
        if self.layout.rng is not None and getattr(lay, "same_line", 0) and self.layout.rng.random() < 0.15:
            # a file that ends with empty lines (some of them holding blanks)
            text += "".join(self.layout.rng.choice(["", "", " ", "\t"]) + lay.nl for _ in range(self.layout.rng.randrange(2, 5)))
        elif self.layout.rng is not None and self.layout.rng.random() < 0.5:
            text += lay.nl
        elif self.layout.rng is None:
            text += lay.nl
        self._apply_marks(text, marks)
        return text

    def _apply_marks(self, text, marks):
        data = text.encode("utf8")
        # line starts in bytes
        starts = [0]
        for i, b in enumerate(data):
            if b == 10:
                starts.append(i + 1)
        import bisect

        def lc(off):
            line = bisect.bisect_right(starts, off) - 1
            col = len(data[starts[line]:off].decode("utf8", "replace"))
            return line, col

        open_ = {}
        for kind, key, off, be in marks:
            if kind in ("mark", "marke"):
                obj, name = key
                tgt = obj.target if isinstance(obj, ElseMarks) else obj
                name = ("else_" + name) if isinstance(obj, ElseMarks) else name
                if kind == "mark":
                    open_[(id(tgt), name)] = off
                else:
                    o0 = open_.get((id(tgt), name))
                    if o0 is None:
                        continue
                    l0, c0 = lc(o0)
                    l1, c1 = lc(off)
                    tgt.marks[name] = (self.file, l0, c0, l1, c1, o0, off)
            elif kind == "defb":
                open_[("def", key.uid)] = off
            elif kind == "defe":
                o0 = open_[("def", key.uid)]
                l0, c0 = lc(o0)
                key.pos = (self.file, l0, c0, lc(off)[1], o0)
            elif kind == "occb":
                open_[("occ", key[0].uid, key[1], off)] = off
                self._last_occ = off
            elif kind == "occe":
                d, i, n = key[:3]
                o0 = self._last_occ
                l0, c0 = lc(o0)
                self.occurrences.append({"file": self.file, "o0": o0, "o1": off, "line": l0, "c0": c0, "c1": lc(off)[1], "def": d, "comp": i, "ncomp": n,
                                         "target": key[3] if len(key) > 3 else (d if i == n - 1 else None), "stmt": key[4] if len(key) > 4 else None,
                                         "site": key[5] if len(key) > 5 else None})
            elif kind == "occ":
                pass


class ElseMarks:
    """Redirects the brace marks of an else-block to 'else_lbrace'/'else_rbrace' on the if statement."""

    def __init__(self, target):
        self.target = target
        self.marks = target.marks


class SpellError(Exception):
    pass


def render_program(prog, layout=None):
    """Returns ({file: text}, renderer)."""
    r = Renderer(prog, layout)
    files = {}
    for fname in prog.files:
        files[fname] = r.render_file(fname)
    return files, r
