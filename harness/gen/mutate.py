"""Mutators for source texts."""
HOSTILE = [")", "}", "(", "{", '"', "'", ",", "#", "$", "%", ".", ":", "/", "*", "\r", "\n", "\t", "\0", "\x7f", "é", "€", "𝄞", "\u212a", "\u0130", "\u017f",
           " ", "a", "1", "-", "+", "=", "<", ">", "!", ";", "\\", "[", "]", "_", "@", "&", "|", "^", "~", "`", "?"]


# the quick tier's alphabet: the characters that have found something so far plus the most structural ones
HOSTILE_QUICK = [")", "}", "(", "{", '"', ",", "#", "$", ".", ":", "/", "*", "\r", "\n", "\t", "\0", "é", "𝄞", "\u212a", " ", "-", "!", "_", "a"]


def single_char_mutants(text, alphabet=HOSTILE):
    """All single-character deletions, insertions and replacements (complete for the given alphabet)."""
    n = len(text)
    for i in range(n):
        yield ("del", i, "", text[:i] + text[i + 1:])
    for i in range(n + 1):
        for ch in alphabet:
            yield ("ins", i, ch, text[:i] + ch + text[i:])
    for i in range(n):
        for ch in alphabet:
            if text[i] != ch:
                yield ("rep", i, ch, text[:i] + ch + text[i + 1:])


def context_class(text, i):
    """Coarse syntactic context of position i (for coverage accounting only)."""
    line_start = text.rfind("\n", 0, i) + 1
    prefix = text[line_start:i]
    if "//" in prefix:
        return "line-comment"
    if text.count("/*", 0, i) > text.count("*/", 0, i):
        return "block-comment"
    if prefix.count('"') % 2 == 1:
        return "string"
    if not prefix.strip():
        return "line-start"
    if i < len(text) and text[i] == "\n":
        return "line-end"
    return "mid-line"


def random_mutant(rng, text, fragments):
    ops = rng.randrange(1, 4)
    for _ in range(ops):
        k = rng.randrange(8)
        n = len(text)
        i = rng.randrange(n + 1)
        if k == 0 and n:
            j = min(n, i + rng.randrange(1, 6))
            text = text[:i] + text[j:]
        elif k == 1:
            text = text[:i] + rng.choice(HOSTILE) + text[i:]
        elif k == 2 and n:
            j = min(n, i + rng.randrange(1, 12))
            text = text[:i] + text[i:j] * 2 + text[j:]
        elif k == 3:
            frag = rng.choice(fragments)
            a = rng.randrange(len(frag) + 1)
            b = min(len(frag), a + rng.randrange(1, 60))
            text = text[:i] + frag[a:b] + text[i:]
        elif k == 4:
            text = text[:i]
        elif k == 5 and n > 2:
            lines = text.split("\n")
            a, b = rng.randrange(len(lines)), rng.randrange(len(lines))
            lines[a], lines[b] = lines[b], lines[a]
            text = "\n".join(lines)
        elif k == 6:
            text = text[:i] + "".join(rng.choice(HOSTILE) for _ in range(rng.randrange(1, 5))) + text[i:]
        else:
            text = text[:i] + rng.choice(["\n", "\r\n", "\r", " ", "\t"]) + text[i:]
    return text
