"""expand(P): rewrite an abstract program by expanding constructs by hand, exactly as property C07 words it.

  loop   -> the body repeated, `index` replaced by 0..n-1
  if     -> the selected branch alone
  macro  -> `{ .const p = (arg) ... body }` in a fresh brace scope at the invocation site
  const  -> every use replaced by the parenthesised value
  brace  -> alpha-renamed flat code (inner names made unique, -/+ replaced by fresh labels)
  import -> the imported file's statements in a named scope at the import site, references rewritten to that scope

All functions modify a program in place (the caller generates the program twice from the same seed to get P and P').
"""
import itertools

from . import prog as P

_fresh = itertools.count(1)


def fresh(prefix):
    return "%s_x%d" % (prefix, next(_fresh))


# ---------------------------------------------------------------------------------------------------------------
def map_expr(t, f):
    """Rebuilds expression t bottom-up; f(leaf_or_node) may return a replacement for ref/blk leaves."""
    k = t[0]
    if k in ("ref", "blk"):
        r = f(t)
        return t if r is None else r
    if k in ("num", "pc", "str"):
        return t
    if k == "paren":
        return ("paren", map_expr(t[1], f))
    if k == "un":
        return ("un", t[1], map_expr(t[2], f))
    if k == "bin":
        return ("bin", t[1], map_expr(t[2], f), map_expr(t[3], f))
    raise ValueError(k)


def leftmost(t):
    while t[0] == "bin":
        t = t[2]
    return t


EXPR_ATTRS = {"instr": ["expr"], "const": ["expr"], "var": ["expr"], "if": ["cond"]}


def stmt_exprs(s):
    """Yields (getter, setter) pairs for every expression of statement s."""
    if s.k in EXPR_ATTRS:
        for a in EXPR_ATTRS[s.k]:
            if getattr(s, a) is not None:
                yield (lambda a=a: getattr(s, a)), (lambda v, a=a: setattr(s, a, v))
    elif s.k == "data":
        for i in range(len(s.exprs)):
            yield (lambda i=i: s.exprs[i]), (lambda v, i=i: s.exprs.__setitem__(i, v))
    elif s.k == "macrocall":
        for i in range(len(s.args)):
            yield (lambda i=i: s.args[i]), (lambda v, i=i: s.args.__setitem__(i, v))


def rewrite_exprs(body, f):
    for s in P.iter_stmts(body):
        for get, set_ in stmt_exprs(s):
            set_(map_expr(get(), f))


# ---------------------------------------------------------------------------------------------------------------
class Cloner:
    """Deep copy of a statement list into a (possibly different) parent scope, with fresh Scope/Def objects."""

    def __init__(self, subst=None, shared_vars=None):
        self.shared_vars = shared_vars if shared_vars is not None else {}
        self.defs = {}      # old Def -> new Def
        self.scopes = {}    # old Scope -> new Scope
        self.subst = subst or {}   # old Def -> expression replacing references to it

    def scope(self, old, new_parent):
        sc = P.Scope(old.kind, new_parent, name=old.name, file=old.file)
        self.scopes[old] = sc
        if old.kind == "named" and old.name:
            new_parent.named[old.name] = sc
        return sc

    def define(self, old, scope):
        if old.kind == "var" and old in self.shared_vars:
            # the copies of a loop body redefine one and the same variable
            self.defs[old] = self.shared_vars[old]
            return self.shared_vars[old]
        d = P.Def(old.name, old.kind, scope, expr=None)
        if old.kind == "var" and old.scope in self.scopes and self.scopes[old.scope] is scope and getattr(self, "share_scope", None) is scope:
            self.shared_vars[old] = d
        for a in ("root_unique", "live", "in_if", "value"):
            if hasattr(old, a):
                setattr(d, a, getattr(old, a))
        self.defs[old] = d
        return d

    def expr(self, t):
        def f(leaf):
            if leaf[0] == "ref":
                d = leaf[1]
                if d in self.subst:
                    e = self.subst[d]
                    if leaf[2] == "<":
                        return ("bin", "%", ("paren", e), ("num", 256, None))
                    if leaf[2] == ">":
                        return ("bin", "%", ("paren", ("bin", ">>", ("paren", e), ("num", 8, None))), ("num", 256, None))
                    return e
                if d in self.defs:
                    return ("ref", self.defs[d], leaf[2])
            elif leaf[0] == "blk":
                if leaf[1] in self.scopes:
                    return ("blk", self.scopes[leaf[1]], leaf[2])
            return None
        return map_expr(t, f)

    def predeclare(self, body, scope):
        """Definitions first, so that forward references inside the copied block can be remapped."""
        for s in body:
            if s.k in ("label", "const", "var", "macrodef"):
                if s.d not in self.defs and s.d.scope not in self.scopes or s.d not in self.defs:
                    if not (s.k == "var" and getattr(s, "redefinition", False) and s.d in self.defs):
                        self.define(s.d, scope)

    def block(self, body, scope):
        # scopes and definitions of this level are created first (forward references)
        for s in body:
            if s.k in ("label", "const") and s.d not in self.defs:
                self.define(s.d, scope)
            elif s.k == "var" and s.d not in self.defs:
                self.define(s.d, scope)
            elif s.k == "if":
                self._predeclare_if(s, scope)
        out = []
        for s in body:
            out.append(self.stmt(s, scope))
        return out

    def _predeclare_if(self, s, scope):
        for blk in (s.then, s.else_):
            if blk:
                for t in blk:
                    if t.k in ("label", "const", "var") and t.d not in self.defs:
                        self.define(t.d, scope)
                    elif t.k == "if":
                        self._predeclare_if(t, scope)

    def stmt(self, s, scope):
        k = s.k
        n = P.Stmt(k, scope)
        for a, v in s.__dict__.items():
            if a not in ("k", "scope", "uid", "marks"):
                setattr(n, a, v)
        if k == "instr":
            n.expr = self.expr(s.expr) if s.expr is not None else None
            if n.expr is not None and s.form in ("v", "v,x", "v,y") and leftmost(n.expr)[0] == "paren":
                # an operand that starts with a parenthesis would be read as an indirect addressing mode
                n.expr = ("bin", "+", ("num", 0, "0"), n.expr)
        elif k == "data":
            n.exprs = [self.expr(e) for e in s.exprs]
        elif k in ("const", "var"):
            n.d = self.defs[s.d]
            n.expr = self.expr(s.expr)
        elif k == "label":
            n.d = self.defs[s.d]
            if s.block is not None:
                n.bscope = self.scope(s.bscope, scope)
                n.bscope.name = n.d.name
                n.block = self.block(s.block, n.bscope)
        elif k == "braces":
            n.bscope = self.scope(s.bscope, scope)
            n.block = self.block(s.block, n.bscope)
        elif k == "loop":
            n.bscope = self.scope(s.bscope, scope)
            n.index = self.define(s.index, n.bscope)
            n.block = self.block(s.block, n.bscope)
        elif k == "if":
            n.cond = self.expr(s.cond)
            n.then = [self.stmt(t, scope) for t in s.then]
            n.else_ = [self.stmt(t, scope) for t in s.else_] if s.else_ is not None else None
        elif k == "macrocall":
            n.args = [self.expr(a) for a in s.args]
        elif k == "seguse":
            n.block = self.block(s.block, scope) if s.block is not None else None     # (a segment block is not a scope)
        elif k in ("text", "align", "setpc", "testraw"):
            pass
        else:
            raise ValueError("cannot clone %s" % k)
        return n


# ---------------------------------------------------------------------------------------------------------------
def transform_blocks(prog, fn):
    """Applies fn(stmt) -> list[Stmt] | None (None = keep) to every statement, innermost blocks first."""
    def do(body):
        out = []
        for s in body:
            for attr in ("block", "then", "else_"):
                b = getattr(s, attr, None)
                if b is not None and s.k != "macrodef_skip":
                    setattr(s, attr, do(b))
            r = fn(s)
            if r is None:
                out.append(s)
            else:
                out.extend(r)
        return out
    for name in list(prog.files):
        prog.files[name] = do(prog.files[name])
    return prog


def expand_if(prog):
    def fn(s):
        if s.k == "if":
            return list(s.then if s.taken else (s.else_ or []))
        return None
    return transform_blocks(prog, fn)


def expand_loop(prog):
    def fn(s):
        if s.k != "loop":
            return None
        out = []
        shared = {}
        for i in range(s.count):
            c = Cloner(subst={s.index: ("num", i, None)}, shared_vars=shared)
            c.scopes[s.bscope] = s.scope       # the body moves into the enclosing scope
            c.share_scope = s.scope            # variables defined directly in the body are one variable in all copies
            out.extend(c.block(s.block, s.scope))
        return out
    return transform_blocks(prog, fn)


def expand_macro(prog):
    def fn(s):
        if s.k != "macrocall":
            return None
        m = s.m
        sc = P.Scope("brace", s.scope)
        c = Cloner()
        body = []
        for p, a in zip(m.params, s.args):
            d = P.Def(p.name, "const", sc)
            d.live = True
            c.defs[p] = d
            body.append(P.Stmt("const", sc, d=d, expr=("paren", a)))
        c.scopes[m.bscope] = sc
        body.extend(c.block(m.block, sc))
        return [P.Stmt("braces", s.scope, bscope=sc, block=body)]
    transform_blocks(prog, fn)
    # the definitions are no longer needed
    def drop(s):
        return [] if s.k == "macrodef" else None
    return transform_blocks(prog, drop)


def expand_const(prog):
    consts = {}
    def has_pc(t):
        return t[0] == "pc" or any(isinstance(x, tuple) and has_pc(x) for x in t[1:])

    exported = set(getattr(prog, "exports", None) or {})
    for s in prog.all_stmts():
        if s.k == "const" and s.d in exported:
            continue  # named in an import statement: stays a constant
        if s.k == "const" and s.expr[0] in ("num", "paren") and not has_pc(s.expr):
            consts[s.d] = s.expr
    # values may refer to other constants: substitute until closed
    c = Cloner(subst={d: ("paren", e) if e[0] != "paren" else e for d, e in consts.items()})
    for name in prog.files:
        for s in P.iter_stmts(prog.files[name]):
            for get, set_ in stmt_exprs(s):
                e = c.expr(get())
                if s.k == "instr" and s.form in ("v", "v,x", "v,y") and leftmost(e)[0] == "paren":
                    # an operand that starts with a parenthesis would be read as an indirect addressing mode
                    e = ("bin", "+", ("num", 0, "0"), e)
                set_(e)

    def drop(s):
        return [] if (s.k == "const" and s.d in consts) else None
    transform_blocks(prog, drop)
    for d in consts:
        d.scope.defs.pop(d.name, None)
        if getattr(prog, "exports", None):
            prog.exports.pop(d, None)
    return prog


def expand_brace(prog):
    """Anonymous brace scopes (outside loops and macro bodies) are flattened into their parent."""
    def inside_loop_or_macro(scope):
        return any(a.kind in ("loop", "macro") for a in scope.chain())

    def fn(s):
        if s.k != "braces" or inside_loop_or_macro(s.scope) or inside_loop_or_macro(s.bscope):
            return None
        inner, parent = s.bscope, s.scope
        start = P.Def(fresh("bs"), "label", parent)
        end = P.Def(fresh("be"), "label", parent)
        start.live = end.live = True
        # rename and move the definitions of the brace scope
        for name, d in list(inner.defs.items()):
            new = fresh(name)
            d.name = new
            d.scope = parent
            parent.defs[new] = d
        # named child scopes follow their (renamed) labels
        for t in P.iter_stmts(s.block):
            if t.k == "label" and t.block is not None and t.bscope.parent is inner:
                t.bscope.name = t.d.name
                t.bscope.parent = parent
                parent.named[t.d.name] = t.bscope
        inner.named.clear()
        # every scope whose parent was the brace scope now hangs below the parent
        for t in P.iter_stmts(s.block):
            if getattr(t, "bscope", None) is not None and t.bscope.parent is inner:
                t.bscope.parent = parent
            if t.scope is inner:
                t.scope = parent

        def f(leaf):
            if leaf[0] == "blk" and leaf[1] is inner:
                return ("ref", start if leaf[2] == "-" else end, None)
            return None
        rewrite_exprs(s.block, f)
        return [P.Stmt("label", parent, d=start, block=None, bscope=None)] + list(s.block) + [P.Stmt("label", parent, d=end, block=None, bscope=None)]
    transform_blocks(prog, fn)
    # statements nested in if-branches inside the brace carried scope=inner as well: fixed above via iter_stmts
    return prog


def expand_import(prog):
    def fn(s):
        if s.k != "import" or s.block is not None:
            return None
        sc = s.bscope
        name = fresh("imp")
        d = P.Def(name, "label", s.scope)
        d.live = True
        sc.kind = "named"
        sc.name = name
        sc.barrier = False
        s.scope.named[name] = sc
        body = prog.files.pop(s.file)
        for e in s.exported:
            if getattr(prog, "exports", None):
                prog.exports.pop(e, None)
        # all definitions of the file now live in main.asm
        for t in P.iter_stmts(body):
            t.marks = {}
        return [P.Stmt("label", s.scope, d=d, block=body, bscope=sc)]
    return transform_blocks(prog, fn)


EXPANSIONS = {"if": expand_if, "loop": expand_loop, "macro": expand_macro, "const": expand_const, "brace": expand_brace, "import": expand_import}
