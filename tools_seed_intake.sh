#!/bin/sh
# usage: tools_seed_intake.sh C09 [C03 ...]  - copies /tmp/mut-<id>-out/{A,B} to /verif/seeded/<id>-{A,B}, confirms each, runs the property's quick check
cd "$(dirname "$0")"
for p in "$@"; do
  for x in ${LETTERS:-A B}; do
    src=/tmp/${MUTDIR:-mut}-$p-out/$x; dst=seeded/$p-$x
    [ -f $src/patch.diff ] || { echo "== $p-$x: no patch"; continue; }
    mkdir -p $dst; cp $src/patch.diff $src/meta.json $dst/ 2>/dev/null; cp $src/demo.sh $dst/ 2>/dev/null
    for f in $src/*; do case "$f" in */patch.diff|*/meta.json|*/demo.sh|*.log) ;; *) [ -f "$f" ] && [ $(stat -c %s "$f") -lt 200000 ] && cp "$f" $dst/ ;; esac; done
    echo "== $p-$x confirm"; python3 tools_seed.py confirm $dst > $dst/confirm.json 2>&1; echo "   confirmed rc=$?"; grep -E '"tests"|"failed"|confirmed' $dst/confirm.json | tr -d '\n'; echo
    echo "== $p-$x run"; python3 tools_seed.py run $p-$x 2>&1 | tail -3
  done
done
