#!/usr/bin/env python3
"""Regenerates MANIFEST.json from the table below (keeps it valid at all times)."""
import json, os, sys
HERE = os.path.dirname(os.path.abspath(__file__))
sys.path.insert(0, HERE)
from harness.manifest_data import CHECKS, NOT_APPLICABLE  # noqa

props = [json.loads(l)["id"] for l in open(os.path.join(HERE, "properties.jsonl"))]
checks = []
for pid in props:
    if pid not in CHECKS:
        continue
    c = CHECKS[pid]
    checks.append({
        "property_id": pid,
        "quick_cmd": "./vcheck %s --tier quick" % pid,
        "thorough_cmd": "./vcheck %s --tier thorough" % pid,
        "evidence_file": "/verif/evidence/%s.json" % pid,
        "replay_cmd_template": "./vcheck replay {path}",
        "engine": c.get("engine", "probe"),
        "level_claimed": {"category": c.get("category", "exploration"), "text": c["text"], "design_ref": c.get("design_ref", "DESIGN.md section 6 / " + pid)},
        "level_note": c["note"],
        "technique": c["technique"],
    })
na = [{"property_id": p, "reason": NOT_APPLICABLE.get(p, "check not built yet in this round; see DESIGN.md section 6")} for p in props if p not in CHECKS]
manifest = {
    "version": 1,
    "setup_cmd": "./vcheck build",
    "hooks": {
        "guard": "cargo feature `verif` (mos-core/verif, mos/verif)",
        "enable": "cargo build --release --offline --manifest-path /repo/mos/Cargo.toml --features verif --target-dir /verif/.build/mos-main ; probe: path dependency on /repo/mos-core with features=[\"verif\"]",
        "baseline_off_cmd": "cd /repo && cargo nextest run --workspace --no-fail-fast --offline",
        "source_commits": ["694e25f", "9fd3370", "ad7f19c", "735cb11", "2a75486"],
        "add_only": True,
    },
    "engines": [
        {"name": "probe", "path": "/verif/probe", "serves_properties": [p for p in props if CHECKS.get(p, {}).get("engine", "probe") == "probe" and p in CHECKS], "kind_free_text": "Rust binary `mosprobe` driving the real mos-core library in-process (parse, codegen build/analysis mode, format, listing, bank merge) with the H1 pass observer; Python oracles judge its answers"},
        {"name": "cli", "path": "/verif/harness/client", "serves_properties": [p for p in props if CHECKS.get(p, {}).get("engine") == "cli"], "kind_free_text": "the real `mos` executable (hooks on) run in throw-away project directories; process-boundary observations"},
        {"name": "lsp", "path": "/verif/harness/client", "serves_properties": [p for p in props if CHECKS.get(p, {}).get("engine") == "lsp"], "kind_free_text": "the real `mos lsp` process driven over JSON-RPC stdio and its debug-adapter TCP socket"},
    ],
    "checks": checks,
    "not_applicable": na,
    "notes": "Technique family: runtime monitoring. Every check drives the real code under generated workloads and judges observed executions with an independent oracle; see DESIGN.md. known_findings.json lists unrepaired genuine defects by signature.",
}
json.dump(manifest, open(os.path.join(HERE, "MANIFEST.json"), "w"), indent=1)
print("checks:", [c["property_id"] for c in checks], "not_applicable:", [n["property_id"] for n in na])
