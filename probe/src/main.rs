//! mosprobe: drives the real mos-core library in-process on in-memory projects.
//!
//! JSON mode (default): one JSON request per line on stdin, one JSON response per line on stdout.
//! Plain mode (`mosprobe --plain <file>`): no serde_json on the executed path (Miri stops in itoa 0.4.8,
//! a dependency of serde_json); the corpus file holds cases separated by a line `====CASE`, files inside a
//! case by `====FILE <name>`; a one-line summary per case is printed.
use mos_core::codegen::verif::{max_work_per_pass, set_pass_observer, set_work_cap, PassInfo};
use mos_core::codegen::{codegen, CodegenContext, CodegenOptions, SymbolData};
use mos_core::errors::Diagnostics;
use mos_core::formatting::{format, FormattingOptions};
use mos_core::io::{to_listing, to_vice_symbols, BinaryWriter};
use mos_core::parser::code_map::{CodeMap, Span};
use mos_core::parser::source::InMemoryParsingSource;
use mos_core::parser::{parse, IdentifierPath, ParseTree};
use serde_json::{json, Map, Value};
use std::cell::RefCell;
use std::collections::BTreeMap;
use std::io::{BufRead, Write};
use std::panic::{catch_unwind, AssertUnwindSafe};
use std::path::Path;
use std::rc::Rc;
use std::sync::Arc;

thread_local! {
    static LAST_PANIC: RefCell<Option<String>> = RefCell::new(None);
}

fn install_panic_hook() {
    std::panic::set_hook(Box::new(|info| {
        let payload = if let Some(s) = info.payload().downcast_ref::<&str>() {
            s.to_string()
        } else if let Some(s) = info.payload().downcast_ref::<String>() {
            s.clone()
        } else {
            "<non-string payload>".to_string()
        };
        let loc = info
            .location()
            .map(|l| format!("{}:{}", l.file(), l.line()))
            .unwrap_or_else(|| "<unknown>".into());
        LAST_PANIC.with(|p| *p.borrow_mut() = Some(format!("{} @ {}", payload, loc)));
    }));
}

fn guarded<T>(f: impl FnOnce() -> T) -> Result<T, String> {
    LAST_PANIC.with(|p| *p.borrow_mut() = None);
    match catch_unwind(AssertUnwindSafe(f)) {
        Ok(v) => Ok(v),
        Err(_) => Err(LAST_PANIC
            .with(|p| p.borrow_mut().take())
            .unwrap_or_else(|| "<panic without message>".into())),
    }
}

fn hex(bytes: &[u8]) -> String {
    let mut s = String::with_capacity(bytes.len() * 2);
    for b in bytes {
        s.push_str(&format!("{:02x}", b));
    }
    s
}

fn span_json(cm: &CodeMap, span: Span) -> Value {
    // look_up_span may itself panic on foreign spans: that is an observation, reported by the caller
    let sl = cm.look_up_span(span);
    let file_low = sl.file.span.low().as_usize();
    json!({
        "file": sl.file.name(),
        "l0": sl.begin.line, "c0": sl.begin.column,
        "l1": sl.end.line, "c1": sl.end.column,
        "o0": span.low().as_usize() - file_low,
        "o1": span.high().as_usize() - file_low,
    })
}

fn diags_json(d: &Diagnostics, cm: Option<&CodeMap>) -> Value {
    let mut out = vec![];
    for diag in d.iter() {
        let mut labels = vec![];
        for l in &diag.labels {
            match cm {
                Some(cm) => match guarded(|| span_json(cm, l.file_id)) {
                    Ok(v) => labels.push(v),
                    Err(p) => labels.push(json!({ "panic": p })),
                },
                None => labels.push(json!({"nocodemap": true})),
            }
        }
        out.push(json!({"msg": diag.message, "labels": labels, "notes": diag.notes}));
    }
    Value::Array(out)
}

struct PassLog {
    infos: Vec<PassInfo>,
    stopped: Option<String>,
}

fn periodic_tail(h: &[u64], reps: usize) -> Option<usize> {
    let n = h.len();
    for period in 1..=(n / (reps + 1)) {
        if (0..period * reps).all(|i| h[n - 1 - i] == h[n - 1 - i - period]) {
            return Some(period);
        }
    }
    None
}

fn run_codegen(
    tree: Arc<ParseTree>,
    options: CodegenOptions,
    pass_cap: usize,
) -> (Option<CodegenContext>, Diagnostics, PassLog) {
    let log = Rc::new(RefCell::new(PassLog {
        infos: vec![],
        stopped: None,
    }));
    let log2 = log.clone();
    set_pass_observer(Some(Box::new(move |info: &PassInfo| {
        let mut l = log2.borrow_mut();
        l.infos.push(info.clone());
        // The loop is only stopped when it is still running at the cap. Whether the state sequence is periodic at
        // that point separates "proven cycle, never ends" from "slow drift, undecided".
        if l.infos.len() >= pass_cap {
            let digests: Vec<u64> = l.infos.iter().map(|i| i.digest).collect();
            l.stopped = Some(match periodic_tail(&digests, 3) {
                Some(period) => format!("cycle:{}", period),
                None => "cap".into(),
            });
            return true;
        }
        false
    })));
    let (ctx, diags) = codegen(tree, options);
    set_pass_observer(None);
    let log = Rc::try_unwrap(log).ok().unwrap().into_inner();
    (ctx, diags, log)
}

fn tail(infos: &[PassInfo]) -> &[PassInfo] {
    &infos[infos.len().saturating_sub(12)..]
}

fn passes_json(log: &PassLog) -> Value {
    json!({
        "n": log.infos.len(),
        "stopped": log.stopped,
        "digests": tail(&log.infos).iter().map(|i| format!("{:016x}", i.digest)).collect::<Vec<_>>(),
        "sym_digests": tail(&log.infos).iter().map(|i| format!("{:016x}", i.symbols_digest)).collect::<Vec<_>>(),
        "errors": tail(&log.infos).iter().map(|i| i.num_errors).collect::<Vec<_>>(),
        "undefined": tail(&log.infos).iter().map(|i| i.num_undefined).collect::<Vec<_>>(),
        "bytes": tail(&log.infos).iter().map(|i| i.num_bytes).collect::<Vec<_>>(),
        "sym_changes": log.infos.windows(2).filter(|w| w[0].symbols_digest != w[1].symbols_digest).count(),
    })
}

fn ctx_json(ctx: &CodegenContext, want: &Want) -> Value {
    let cm = &ctx.tree().code_map;
    let mut out = Map::new();
    let mut segs = vec![];
    for (name, seg) in ctx.segments() {
        let o = seg.options();
        segs.push(json!({
            "name": name.as_str(),
            "start": seg.range().start, "end": seg.range().end,
            "target_offset": seg.target_offset(),
            "initial_pc": o.initial_pc.as_usize(), "target_address": o.target_address.as_usize(),
            "write": o.write, "bank": o.bank.as_ref().map(|b| b.as_str().to_string()),
            "bytes": hex(seg.range_data()),
        }));
    }
    out.insert("segments".into(), Value::Array(segs));
    let mut banks = vec![];
    for (name, b) in ctx.banks() {
        banks.push(json!({"name": name.as_str(), "size": b.size, "fill": b.fill,
            "create_segment": b.create_segment, "filename": b.filename}));
    }
    out.insert("banks".into(), Value::Array(banks));
    if want.symbols {
        let all: BTreeMap<String, _> = ctx
            .symbols()
            .all()
            .into_iter()
            .map(|(p, v)| (p.to_string(), v))
            .collect();
        let mut syms = vec![];
        for (path, (_nx, s)) in all {
            let (kind, val) = match &s.data {
                SymbolData::Number(n) => ("num", json!(n)),
                SymbolData::String(t) => ("str", json!(t)),
                SymbolData::Placeholder => ("placeholder", Value::Null),
                SymbolData::MacroDefinition(_) => ("macro", Value::Null),
            };
            let span = match s.span {
                Some(sp) => guarded(|| span_json(cm, sp)).unwrap_or_else(|p| json!({ "panic": p })),
                None => Value::Null,
            };
            syms.push(json!({"path": path, "ty": format!("{:?}", s.ty), "kind": kind, "val": val, "pass": s.pass_idx,
                "span": span, "segment": s.segment.as_ref().map(|x| x.as_str().to_string())}));
        }
        out.insert("symbols".into(), Value::Array(syms));
    }
    if want.source_map {
        let mut sm = vec![];
        for o in ctx.source_map().offsets() {
            let span = guarded(|| span_json(cm, o.span)).unwrap_or_else(|p| json!({ "panic": p }));
            // what the address lookup (used by the debugger) answers for the first and the last address of this entry
            let look = |pc: usize| -> Value {
                match guarded(|| ctx.source_map().address_to_offset(pc).map(|f| (f.span, f.pc.start, f.pc.end))) {
                    Ok(Some((sp, a, b))) => {
                        let j = guarded(|| span_json(cm, sp)).unwrap_or_else(|p| json!({ "panic": p }));
                        json!({"span": j, "pc0": a, "pc1": b})
                    }
                    Ok(None) => Value::Null,
                    Err(p) => json!({ "panic": p }),
                }
            };
            let (l0, l1) = if o.pc.end > o.pc.start { (look(o.pc.start), look(o.pc.end - 1)) } else { (Value::Null, Value::Null) };
            sm.push(json!({"span": span, "pc0": o.pc.start, "pc1": o.pc.end, "scope": o.scope.index(), "lookup0": l0, "lookup1": l1}));
        }
        out.insert("source_map".into(), Value::Array(sm));
    }
    Value::Object(out)
}

#[derive(Default)]
struct Want {
    symbols: bool,
    source_map: bool,
}

fn handle(req: &Value) -> Value {
    let mut resp = Map::new();
    if let Some(id) = req.get("id") {
        resp.insert("id".into(), id.clone());
    }
    let files = match req.get("files").and_then(|f| f.as_object()) {
        Some(f) => f,
        None => {
            resp.insert("error".into(), json!("no files"));
            return Value::Object(resp);
        }
    };
    let main = req
        .get("main")
        .and_then(|m| m.as_str())
        .unwrap_or("main.asm")
        .to_string();
    let ops: Vec<String> = req
        .get("ops")
        .and_then(|o| o.as_array())
        .map(|a| {
            a.iter()
                .filter_map(|v| v.as_str().map(|s| s.to_string()))
                .collect()
        })
        .unwrap_or_else(|| vec!["parse".into(), "codegen".into()]);
    let has = |op: &str| ops.iter().any(|o| o == op);
    let opts = req.get("opts").cloned().unwrap_or_else(|| json!({}));
    let pass_cap = opts.get("pass_cap").and_then(|v| v.as_u64()).unwrap_or(1500) as usize;
    let want = Want {
        symbols: has("symbols"),
        source_map: has("source_map"),
    };

    let make_source = || {
        let mut src = InMemoryParsingSource::new();
        for (name, text) in files {
            src = src.add(name.as_str(), text.as_str().unwrap_or(""));
        }
        src
    };

    // ---- parse
    // (the work counter also advances in the parser: per statement and per source file read)
    let parse_work_cap = opts.get("work_cap").and_then(|v| v.as_u64()).unwrap_or(0);
    set_work_cap(parse_work_cap);
    let parsed = guarded(|| parse(Path::new(&main), make_source().into()));
    set_work_cap(0);
    let (tree, parse_diags) = match parsed {
        Ok((tree, diags)) => (tree, diags),
        Err(p) => {
            if p.to_string().contains("MOS-VERIF work cap exceeded") {
                resp.insert("parse".into(), json!({ "work_cap_exceeded": parse_work_cap }));
            } else {
                resp.insert("parse".into(), json!({ "panic": p }));
            }
            return Value::Object(resp);
        }
    };
    {
        let mut pj = Map::new();
        pj.insert(
            "diags".into(),
            diags_json(&parse_diags, tree.as_ref().map(|t| &t.code_map)),
        );
        pj.insert("has_tree".into(), json!(tree.is_some()));
        if let Some(tree) = &tree {
            if has("display") {
                let mut disp = Map::new();
                for (path, pf) in &tree.files {
                    let r = guarded(|| {
                        let mut s = String::new();
                        for t in pf.tokens.iter() {
                            s.push_str(&format!("{}", t));
                        }
                        s
                    });
                    let key = path.to_string_lossy().to_string();
                    match r {
                        Ok(s) => disp.insert(key, json!(s)),
                        Err(p) => disp.insert(key, json!({ "panic": p })),
                    };
                }
                pj.insert("display".into(), Value::Object(disp));
            }
            pj.insert(
                "files".into(),
                json!(tree
                    .code_map
                    .files()
                    .iter()
                    .map(|f| f.name().to_string())
                    .collect::<Vec<_>>()),
            );
        }
        resp.insert("parse".into(), Value::Object(pj));
    }
    let tree = match tree {
        Some(t) => t,
        None => return Value::Object(resp),
    };
    let parse_ok = parse_diags.is_empty();

    // ---- format (the CLI and LSP only format error-free projects)
    if has("format") && (parse_ok || has("format_always")) {
        let fopts: Result<FormattingOptions, _> = match opts.get("formatting") {
            Some(v) => serde_json::from_value(v.clone()),
            None => Ok(FormattingOptions::default()),
        };
        match fopts {
            Ok(fopts) => {
                let mut out = Map::new();
                for path in tree.files.keys() {
                    let key = path.to_string_lossy().to_string();
                    match guarded(|| format(path, tree.clone(), fopts)) {
                        Ok(s) => out.insert(key, json!(s)),
                        Err(p) => out.insert(key, json!({ "panic": p })),
                    };
                }
                resp.insert("format".into(), Value::Object(out));
            }
            Err(e) => {
                resp.insert("format".into(), json!({"error": e.to_string()}));
            }
        }
    }

    // ---- codegen as `mos build` does it (only when the parse was clean, like the CLI) or always when asked
    let base_pc = opts.get("pc").and_then(|v| v.as_u64()).unwrap_or(0x2000) as usize;
    let active_test = opts
        .get("active_test")
        .and_then(|v| v.as_str())
        .map(IdentifierPath::from);
    let move_macro = opts
        .get("move_macro")
        .and_then(|v| v.as_bool())
        .unwrap_or(false);
    for (op, greedy) in [("codegen", false), ("greedy", true)] {
        if !has(op) {
            continue;
        }
        if !greedy && !parse_ok && !has("codegen_always") {
            continue;
        }
        let options = CodegenOptions {
            pc: base_pc.into(),
            active_test: active_test.clone(),
            move_macro_source_map_to_invocation: move_macro,
            enable_greedy_analysis: greedy,
            ..Default::default()
        };
        let t = tree.clone();
        let work_cap = opts.get("work_cap").and_then(|v| v.as_u64()).unwrap_or(0);
        set_work_cap(work_cap);
        let outcome = guarded(move || run_codegen(t, options, pass_cap));
        let work = max_work_per_pass();
        set_work_cap(0);
        match outcome {
            Err(p) => {
                set_pass_observer(None);
                if p.to_string().contains("MOS-VERIF work cap exceeded") {
                    resp.insert(op.into(), json!({ "work_cap_exceeded": work_cap }));
                } else {
                    resp.insert(op.into(), json!({ "panic": p, "work": work }));
                }
            }
            Ok((ctx, diags, log)) => {
                let mut cj = Map::new();
                cj.insert("work".into(), json!(work));
                cj.insert("diags".into(), diags_json(&diags, Some(&tree.code_map)));
                cj.insert("passes".into(), passes_json(&log));
                if let Some(ctx) = &ctx {
                    match guarded(|| ctx_json(ctx, &want)) {
                        Ok(v) => {
                            cj.insert("ctx".into(), v);
                        }
                        Err(p) => {
                            cj.insert("ctx_panic".into(), json!(p));
                        }
                    }
                    if diags.is_empty() && !greedy {
                        if has("listing") {
                            let n = opts
                                .get("listing_bytes")
                                .and_then(|v| v.as_u64())
                                .unwrap_or(8) as usize;
                            match guarded(|| to_listing(ctx, n)) {
                                Ok(Ok(l)) => {
                                    let m: BTreeMap<String, String> = l
                                        .into_iter()
                                        .map(|(k, v)| (k.to_string_lossy().to_string(), v))
                                        .collect();
                                    cj.insert("listing".into(), json!(m));
                                }
                                Ok(Err(e)) => {
                                    cj.insert(
                                        "listing_err".into(),
                                        diags_json(&e, Some(&tree.code_map)),
                                    );
                                }
                                Err(p) => {
                                    cj.insert("listing_panic".into(), json!(p));
                                }
                            }
                        }
                        if has("merge") {
                            match guarded(|| BinaryWriter {}.merge_segments(ctx)) {
                                Ok(Ok(banks)) => {
                                    let v: Vec<Value> = banks
                                        .iter()
                                        .map(|b| {
                                            json!({"name": b.options().name.as_str(), "start": b.range().start,
                                        "end": b.range().end, "bytes": hex(b.data()), "filename": b.options().filename})
                                        })
                                        .collect();
                                    cj.insert("merge".into(), json!(v));
                                }
                                Ok(Err(e)) => {
                                    cj.insert(
                                        "merge_err".into(),
                                        diags_json(&e, Some(&tree.code_map)),
                                    );
                                }
                                Err(p) => {
                                    cj.insert("merge_panic".into(), json!(p));
                                }
                            }
                        }
                        if has("vice") {
                            match guarded(|| to_vice_symbols(ctx.symbols())) {
                                Ok(s) => {
                                    cj.insert("vice".into(), json!(s));
                                }
                                Err(p) => {
                                    cj.insert("vice_panic".into(), json!(p));
                                }
                            }
                        }
                    }
                }
                resp.insert(op.into(), Value::Object(cj));
            }
        }
    }
    Value::Object(resp)
}

/// Compact batch mode for very large enumerations: every source is parsed and assembled (build mode) on its own.
fn handle_batch(req: &Value) -> Value {
    let base_pc = req.get("pc").and_then(|v| v.as_u64()).unwrap_or(0x2000) as usize;
    let want_display = req.get("display").and_then(|v| v.as_bool()).unwrap_or(false);
    let mut results = vec![];
    for src in req.get("batch").and_then(|b| b.as_array()).cloned().unwrap_or_default() {
        let text = src.as_str().unwrap_or("").to_string();
        let r = guarded(|| {
            let source = InMemoryParsingSource::new().add("main.asm", &text);
            let (tree, pd) = parse(Path::new("main.asm"), source.into());
            let mut diags: Vec<Value> = vec![];
            let push = |d: &Diagnostics, cm: Option<&CodeMap>, diags: &mut Vec<Value>| {
                for diag in d.iter() {
                    let line = match (cm, diag.labels.first()) {
                        (Some(cm), Some(l)) => cm.look_up_span(l.file_id).begin.line as i64,
                        _ => -1,
                    };
                    diags.push(json!([line, diag.message]));
                }
            };
            let tree = match tree {
                Some(t) => t,
                None => {
                    push(&pd, None, &mut diags);
                    return json!({ "d": diags });
                }
            };
            let mut display = None;
            if want_display {
                let mut t = String::new();
                for tok in tree.main_file().tokens.iter() {
                    t.push_str(&format!("{}", tok));
                }
                display = Some(t);
            }
            if !pd.is_empty() {
                push(&pd, Some(&tree.code_map), &mut diags);
                return json!({ "d": diags, "stage": "parse", "t": display });
            }
            let options = CodegenOptions {
                pc: base_pc.into(),
                ..Default::default()
            };
            let (ctx, cd, log) = run_codegen(tree.clone(), options, 1500);
            push(&cd, Some(&tree.code_map), &mut diags);
            let mut out = Map::new();
            out.insert("d".into(), json!(diags));
            out.insert("p".into(), json!(log.infos.len()));
            if let Some(t) = display {
                out.insert("t".into(), json!(t));
            }
            if let Some(ctx) = ctx {
                let segs: Vec<Value> = ctx
                    .segments()
                    .iter()
                    .map(|(n, s)| json!([n.as_str(), s.range().start, hex(s.range_data())]))
                    .collect();
                out.insert("s".into(), json!(segs));
            }
            Value::Object(out)
        });
        results.push(match r {
            Ok(v) => v,
            Err(p) => {
                set_pass_observer(None);
                json!({ "panic": p })
            }
        });
    }
    json!({"id": req.get("id"), "results": results})
}

fn handle_on_big_stack(req: Value) -> Value {
    // Same stack size as the main thread of the CLI (8 MiB)
    let id = req.get("id").cloned();
    let h = std::thread::Builder::new()
        .stack_size(8 * 1024 * 1024)
        .spawn(move || {
            if req.get("batch").is_some() {
                handle_batch(&req)
            } else {
                handle(&req)
            }
        })
        .unwrap();
    match h.join() {
        Ok(v) => v,
        Err(_) => json!({"id": id, "error": "worker thread panicked outside guard"}),
    }
}

fn plain_mode(path: &str) {
    let text = std::fs::read_to_string(path).expect("cannot read corpus");
    let mut n = 0;
    for case in text.split("====CASE\n") {
        if case.trim().is_empty() {
            continue;
        }
        let mut src = InMemoryParsingSource::new();
        let mut first: Option<String> = None;
        for part in case.split("====FILE ") {
            if part.is_empty() {
                continue;
            }
            let (name, body) = match part.find('\n') {
                Some(i) => (&part[..i], &part[i + 1..]),
                None => (part, ""),
            };
            if first.is_none() {
                first = Some(name.to_string());
            }
            src = src.add(name, body);
        }
        let main = first.unwrap_or_else(|| "main.asm".into());
        let r = guarded(|| {
            let (tree, pd) = parse(Path::new(&main), src.into());
            let mut summary = format!("parse_diags={}", pd.len());
            if let Some(tree) = tree {
                let mut disp = 0usize;
                for pf in tree.files.values() {
                    for t in pf.tokens.iter() {
                        disp += format!("{}", t).len();
                    }
                }
                summary += &format!(" display_len={}", disp);
                if pd.is_empty() {
                    for path in tree.files.keys() {
                        let f = format(path, tree.clone(), FormattingOptions::default());
                        summary += &format!(" fmt_len={}", f.len());
                    }
                }
                for greedy in [false, true] {
                    let options = CodegenOptions {
                        pc: 0x2000.into(),
                        enable_greedy_analysis: greedy,
                        move_macro_source_map_to_invocation: true,
                        ..Default::default()
                    };
                    let (ctx, d, log) = run_codegen(tree.clone(), options, 12);
                    summary += &format!(" cg{}_diags={} passes={}", greedy as u8, d.len(), log.infos.len());
                    if let Some(ctx) = ctx {
                        if d.is_empty() {
                            if let Ok(l) = to_listing(&ctx, 8) {
                                summary += &format!(" listing_files={}", l.len());
                            }
                            if let Ok(b) = (BinaryWriter {}).merge_segments(&ctx) {
                                summary += &format!(" banks={}", b.len());
                            }
                            summary += &format!(" vice_len={}", to_vice_symbols(ctx.symbols()).len());
                        }
                    }
                }
            }
            summary
        });
        match r {
            Ok(s) => println!("case {} ok {}", n, s),
            Err(p) => println!("case {} panic {}", n, p),
        }
        n += 1;
    }
    println!("done cases={}", n);
}

fn main() {
    install_panic_hook();
    let args: Vec<String> = std::env::args().collect();
    if args.len() >= 3 && args[1] == "--plain" {
        plain_mode(&args[2]);
        return;
    }
    let stdin = std::io::stdin();
    let stdout = std::io::stdout();
    for line in stdin.lock().lines() {
        let line = match line {
            Ok(l) => l,
            Err(_) => break,
        };
        if line.trim().is_empty() {
            continue;
        }
        let resp = match serde_json::from_str::<Value>(&line) {
            Ok(req) => handle_on_big_stack(req),
            Err(e) => json!({"error": format!("bad request: {}", e)}),
        };
        let mut out = stdout.lock();
        let _ = writeln!(out, "{}", resp);
        let _ = out.flush();
    }
}
