#!/usr/bin/env python3
"""Seeded-change exercise: confirm a change in a scratch worktree and run the checks against it.

  tools_seed.py confirm <dir-with-patch.diff+demo.sh>      tests still pass? demo fails with / passes without the change?
  tools_seed.py run <seeded-id> [Cxx ...] [--tier quick]   run checks against the change (scratch worktree, VERIF_REPO),
                                                          evidence/replays go to a scratch directory, /repo is not touched
  tools_seed.py all [--tier quick]                         every /verif/seeded/<id> against the property it breaks

The scratch worktree is /tmp/seedrun (created on demand from /repo's HEAD, one at a time, remove it with
`git -C /repo worktree remove --force /tmp/seedrun` when done). Nothing here is used by a registered check.
"""
import json
import os
import re
import subprocess
import sys
import time

VERIF = os.path.dirname(os.path.abspath(__file__))
WT = os.environ.get("SEED_WT", "/tmp/seedrun")
OUT = WT + "-out"


def sh(cmd, **kw):
    return subprocess.run(cmd, shell=True, stdout=subprocess.PIPE, stderr=subprocess.STDOUT, text=True, **kw)


def ensure_wt():
    if not os.path.isdir(WT):
        r = sh("git -C /repo worktree add -q --detach %s HEAD" % WT)
        if r.returncode:
            raise SystemExit(r.stdout)
    head = sh("git -C /repo rev-parse HEAD").stdout.strip()
    sh("git -C %s checkout -q -- . && git -C %s clean -fdq -e target && git -C %s checkout -q --detach %s" % (WT, WT, WT, head))


class PatchError(Exception):
    pass


def apply(patch):
    r = sh("git -C %s apply %s" % (WT, patch))
    if r.returncode:
        # the change was made against an earlier HEAD: merge it (the blobs it was made against are in the repository)
        r = sh("git -C %s apply --3way %s && git -C %s reset -q" % (WT, patch, WT))
        if r.returncode:
            sh("git -C %s checkout -q -- . ; git -C %s reset -q" % (WT, WT))
            raise PatchError("patch does not apply: " + r.stdout)


def unapply():
    sh("git -C %s checkout -q -- . && git -C %s clean -fdq -e target" % (WT, WT))


def build_release():
    r = sh("cd %s && cargo build --release --offline -p mos 2>&1 | tail -3" % WT)
    return r


def demo(d):
    script = os.path.join(d, "demo.sh")
    t0 = time.time()
    r = sh("bash %s %s" % (script, WT), timeout=900)
    return r.returncode, r.stdout[-1500:], time.time() - t0


def confirm(d):
    d = os.path.abspath(d)
    ensure_wt()
    res = {}
    apply(os.path.join(d, "patch.diff"))
    t = sh("cd %s && cargo nextest run --workspace --no-fail-fast --offline 2>&1 | tail -15" % WT)
    m = re.search(r"(\d+) tests run: (\d+) passed(?: \((\d+) flaky\))?(?:, (\d+) failed)?", t.stdout)
    res["tests"] = m.group(0) if m else t.stdout[-600:]
    failed = re.findall(r"FAIL \[.*?\] +(?:\(\S+\) +)?(\S+ \S+)", t.stdout)
    res["failed"] = sorted(set(failed))
    build_release()
    res["demo_with"] = demo(d)
    unapply()
    build_release()
    res["demo_without"] = demo(d)
    ok = (not [f for f in res["failed"] if "stop_resume" not in f]) and res["demo_with"][0] == 1 and res["demo_without"][0] == 0
    res["confirmed"] = ok
    print(json.dumps(res, indent=1))
    return ok


def run(seed_id, props, tier):
    d = os.path.join(VERIF, "seeded", seed_id)
    meta = json.load(open(os.path.join(d, "meta.json")))
    props = props or ([meta["property"]] + list(meta.get("also_check", [])))
    ensure_wt()
    apply(os.path.join(d, "patch.diff"))
    out = {}
    try:
        for p in props:
            env = dict(os.environ, VERIF_REPO=WT, VERIF_OUT=OUT)
            t0 = time.time()
            r = subprocess.run([os.path.join(VERIF, "vcheck"), p, "--tier", tier], env=env, stdout=subprocess.PIPE, stderr=subprocess.STDOUT, text=True)
            lines = [l for l in r.stdout.splitlines() if l.startswith(("VIOLATION", "KNOWN-FINDING", "HARNESS"))]
            out[p] = {"exit": r.returncode, "s": round(time.time() - t0, 1), "lines": lines[:6], "n_violation_lines": sum(l.startswith("VIOLATION") for l in lines)}
            print(seed_id, p, json.dumps(out[p])[:900], flush=True)
    finally:
        unapply()
    # what was run against this change and what the checks said (committed next to the patch)
    res_path = os.path.join(d, "result.json")
    try:
        res = json.load(open(res_path))
    except (OSError, ValueError):
        res = {}
    head = sh("git -C /repo rev-parse --short HEAD").stdout.strip()
    for p, o in out.items():
        res[p] = {"command": "VERIF_REPO=<scratch worktree with patch.diff applied> ./vcheck %s --tier %s" % (p, tier), "repo_head": head,
                  "exit": o["exit"], "seconds": o["s"], "violation_lines": o["n_violation_lines"], "first_lines": [l[:200] for l in o["lines"][:3]],
                  "caught": o["exit"] == 1 and o["n_violation_lines"] > 0}
    json.dump(res, open(res_path, "w"), indent=1)
    return out


def main():
    a = sys.argv[1:]
    tier = "quick"
    if "--tier" in a:
        i = a.index("--tier")
        tier = a[i + 1]
        del a[i:i + 2]
    if a[0] == "confirm":
        sys.exit(0 if confirm(a[1]) else 1)
    if a[0] == "run":
        run(a[1], a[2:], tier)
    if a[0] == "all":
        res = {}
        only = set(a[1:])
        for sid in sorted(os.listdir(os.path.join(VERIF, "seeded"))):
            if only and sid.split("-")[0] not in only and sid not in only:
                continue
            try:
                res[sid] = run(sid, [], tier)
            except PatchError as e:
                print(sid, "PATCH-ERROR", str(e)[:200], flush=True)
            continue
            if os.path.exists(os.path.join(VERIF, "seeded", sid, "patch.diff")):
                res[sid] = run(sid, [], tier)
        print(json.dumps(res, indent=1))


if __name__ == "__main__":
    main()
