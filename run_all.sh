#!/bin/sh
# Runs every check of one tier in sequence and prints a summary line per property.  usage: ./run_all.sh [quick|thorough]
TIER=${1:-quick}
cd "$(dirname "$0")"
rc=0
for p in C01 C02 C03 C04 C05 C06 C07 C08 C09 C10 C11 C12 C13 C14 C15 C16 C17 C18 C19 C20; do
  out=$(./vcheck $p --tier $TIER 2>&1); r=$?
  echo "$out" | grep -E "^(VIOLATION|KNOWN-FINDING|HARNESS|$p tier)" | cut -c1-220
  [ $r -ne 0 ] && { echo "  -> exit $r"; rc=1; }
done
exit $rc
